------------------------------ MODULE NumExpr ------------------------------
(***************************************************************************)
(* Arithmetic on number expressions (models/number_expr.py): the concrete  *)
(* syntax tree add-of-mul-of-atom and the operators + - * / (in-place,     *)
(* plain, reflected) and unary + -, with the parenthesisation helpers      *)
(* _as_mul_expr / _as_atom_expr / _wrap_paren transcribed.                 *)
(* TLC checks, over exact rationals, that the value of every result is the *)
(* arithmetic result of its operands (so parentheses are added whenever    *)
(* needed), for all operator chains up to Depth from every initial shape.  *)
(***************************************************************************)
EXTENDS Naturals, Integers, Sequences, TLC, Json

CONSTANTS Depth, Inits, Operands,
          LeafVals     \* values assigned to literals in place, e.g. {5, 7}

Num(v) == [k |-> "num", v |-> v, op |-> "", xs |-> <<>>, ops |-> <<>>]
Un(op, a) == [k |-> "un", v |-> 0, op |-> op, xs |-> <<a>>, ops |-> <<>>]
Par(e) == [k |-> "par", v |-> 0, op |-> "", xs |-> <<e>>, ops |-> <<>>]
Mul(xs, ops) == [k |-> "mul", v |-> 0, op |-> "", xs |-> xs, ops |-> ops]
Add(xs, ops) == [k |-> "add", v |-> 0, op |-> "", xs |-> xs, ops |-> ops]
\* a NumberExpr is an Add node
Lit(v) == Add(<<Mul(<<Num(v)>>, <<>>)>>, <<>>)
NegLit(v) == Add(<<Mul(<<Un("-", Num(v))>>, <<>>)>>, <<>>)
FromInt(i) == IF i < 0 THEN NegLit(-i) ELSE Lit(i)       \* NumberExpr.from_value

(* exact rationals <<n, d>>, d > 0, reduced *)
Abs(x) == IF x < 0 THEN -x ELSE x
RECURSIVE Gcd(_, _)
Gcd(a, b) == IF b = 0 THEN a ELSE Gcd(b, a % b)
Norm(n, d) == IF d = 0 THEN <<0, 0>>
              ELSE LET g == Gcd(Abs(n), Abs(d))  s == IF d < 0 THEN -1 ELSE 1
                   IN IF g = 0 THEN <<0, 1>> ELSE <<(s * n) \div g, (s * d) \div g>>
RAdd(a, b) == IF a[2] = 0 \/ b[2] = 0 THEN <<0, 0>> ELSE Norm(a[1] * b[2] + b[1] * a[2], a[2] * b[2])
RSub(a, b) == IF a[2] = 0 \/ b[2] = 0 THEN <<0, 0>> ELSE Norm(a[1] * b[2] - b[1] * a[2], a[2] * b[2])
RMul(a, b) == IF a[2] = 0 \/ b[2] = 0 THEN <<0, 0>> ELSE Norm(a[1] * b[1], a[2] * b[2])
RDiv(a, b) == IF a[2] = 0 \/ b[2] = 0 \/ b[1] = 0 THEN <<0, 0>> ELSE Norm(a[1] * b[2], a[2] * b[1])
RNeg(a) == <<-a[1], a[2]>>
Defined(r) == r[2] # 0           \* <<0,0>> marks a division by zero somewhere

RECURSIVE Eval(_)
Eval(e) ==
    CASE e.k = "num" -> <<e.v, 1>>
      [] e.k = "par" -> Eval(e.xs[1])
      [] e.k = "un" -> IF e.op = "-" THEN RNeg(Eval(e.xs[1])) ELSE Eval(e.xs[1])
      [] e.k = "mul" -> LET RECURSIVE F(_, _)
                            F(acc, i) == IF i > Len(e.xs) THEN acc
                                         ELSE F(IF e.ops[i - 1] = "*" THEN RMul(acc, Eval(e.xs[i])) ELSE RDiv(acc, Eval(e.xs[i])), i + 1)
                        IN F(Eval(e.xs[1]), 2)
      [] e.k = "add" -> LET RECURSIVE F(_, _)
                            F(acc, i) == IF i > Len(e.xs) THEN acc
                                         ELSE F(IF e.ops[i - 1] = "+" THEN RAdd(acc, Eval(e.xs[i])) ELSE RSub(acc, Eval(e.xs[i])), i + 1)
                        IN F(Eval(e.xs[1]), 2)

(* the helpers of number_expr.py; e is an Add node *)
AsMul(e) == IF e.ops = <<>> THEN e.xs[1] ELSE Mul(<<Par(e)>>, <<>>)
AsAtom(e) == IF e.ops = <<>> /\ e.xs[1].ops = <<>> THEN e.xs[1].xs[1] ELSE Par(e)

IAddSub(a, b, op) == Add(a.xs \o <<AsMul(b)>>, a.ops \o <<op>>)
IMulDiv(a, b, op) == LET m == AsMul(a) IN Add(<<Mul(m.xs \o <<AsAtom(b)>>, m.ops \o <<op>>)>>, <<>>)
Unary(a, op) == Add(<<Mul(<<Un(op, AsAtom(a))>>, <<>>)>>, <<>>)

RECURSIVE Render(_)
Render(e) ==
    CASE e.k = "num" -> <<e.v>>
      [] e.k = "par" -> <<"(">> \o Render(e.xs[1]) \o <<")">>
      [] e.k = "un" -> <<e.op>> \o Render(e.xs[1])
      [] OTHER -> LET RECURSIVE F(_) F(i) == IF i > Len(e.xs) THEN <<>> ELSE <<e.ops[i - 1]>> \o Render(e.xs[i]) \o F(i + 1)
                  IN Render(e.xs[1]) \o F(2)

VARIABLES e, steps, last, hist
vars == <<e, steps, last, hist>>

RECURSIVE InitExpr(_)
InitExpr(name) ==
    CASE name = "1" -> Lit(1)
      [] name = "1+2" -> Add(<<Mul(<<Num(1)>>, <<>>), Mul(<<Num(2)>>, <<>>)>>, <<"+">>)
      [] name = "3-1-1" -> Add(<<Mul(<<Num(3)>>, <<>>), Mul(<<Num(1)>>, <<>>), Mul(<<Num(1)>>, <<>>)>>, <<"-", "-">>)
      [] name = "2*3" -> Add(<<Mul(<<Num(2), Num(3)>>, <<"*">>)>>, <<>>)
      [] name = "6/2/3" -> Add(<<Mul(<<Num(6), Num(2), Num(3)>>, <<"/", "/">>)>>, <<>>)
      [] name = "-2" -> NegLit(2)
      [] name = "(1)" -> Add(<<Mul(<<Par(Lit(1))>>, <<>>)>>, <<>>)
      [] name = "(1+2)*3" -> Add(<<Mul(<<Par(InitExpr("1+2")), Num(3)>>, <<"*">>)>>, <<>>)
      [] name = "1+2*3" -> Add(<<Mul(<<Num(1)>>, <<>>), Mul(<<Num(2), Num(3)>>, <<"*">>)>>, <<"+">>)
      [] name = "-(1+2)" -> Add(<<Mul(<<Un("-", Par(InitExpr("1+2")))>>, <<>>)>>, <<>>)
      [] name = "+-1" -> Add(<<Mul(<<Un("+", Un("-", Num(1)))>>, <<>>)>>, <<>>)

\* an operand: an int (also standing for Decimal), or an expression
OperandExpr(o) == IF o[1] = "self" THEN e               \* the expression combined with itself (a + a, a *= a)
                  ELSE IF o[1] = "int" THEN FromInt(o[2])
                  ELSE IF o[1] = "neg" THEN Unary(InitExpr(o[2]), "-")     \* the direct result of a unary minus
                  ELSE InitExpr(o[2])

Apply(form, op, o) ==
    LET b == OperandExpr(o)
        \* result CST; reflected forms swap the roles: other <op> self, with `other` converted by from_value
        r == CASE op \in {"+", "-"} /\ form \in {"plain", "inplace"} -> IAddSub(e, b, op)
               [] op \in {"*", "/"} /\ form \in {"plain", "inplace"} -> IMulDiv(e, b, op)
               [] op \in {"+", "-"} /\ form = "reflected" -> IAddSub(b, e, op)
               [] op \in {"*", "/"} /\ form = "reflected" -> IMulDiv(b, e, op)
        want == CASE op = "+" -> IF form = "reflected" THEN RAdd(Eval(b), Eval(e)) ELSE RAdd(Eval(e), Eval(b))
                  [] op = "-" -> IF form = "reflected" THEN RSub(Eval(b), Eval(e)) ELSE RSub(Eval(e), Eval(b))
                  [] op = "*" -> IF form = "reflected" THEN RMul(Eval(b), Eval(e)) ELSE RMul(Eval(e), Eval(b))
                  [] op = "/" -> IF form = "reflected" THEN RDiv(Eval(b), Eval(e)) ELSE RDiv(Eval(e), Eval(b))
    IN /\ steps < Depth /\ steps' = steps + 1
       /\ (form = "reflected" => o[1] = "int")
       /\ Defined(want)
       /\ e' = r
       /\ last' = [got |-> Eval(r), want |-> want]
       /\ hist' = Append(hist, [op |-> op, form |-> form, operand |-> o, value |-> want, text |-> Render(r)])

ApplyUnary(op) ==
    /\ steps < Depth /\ steps' = steps + 1
    /\ e' = Unary(e, op)
    /\ last' = [got |-> Eval(Unary(e, op)), want |-> IF op = "-" THEN RNeg(Eval(e)) ELSE Eval(e)]
    /\ hist' = Append(hist, [op |-> "u" \o op, form |-> "plain", operand |-> <<"int", 0>>,
                             value |-> IF op = "-" THEN RNeg(Eval(e)) ELSE Eval(e), text |-> Render(Unary(e, op))])

\* A literal somewhere inside the expression is assigned a new value through the token itself (Number.value = v):
\* every enclosing node must denote the new arithmetic value afterwards (nothing about the old operands may be
\* remembered).  Leaves are numbered in reading order.
RECURSIVE NLeaves(_)
NLeaves(x) == IF x.k = "num" THEN 1
              ELSE LET RECURSIVE S(_) S(i) == IF i > Len(x.xs) THEN 0 ELSE NLeaves(x.xs[i]) + S(i + 1) IN S(1)
RECURSIVE SetLeaf(_, _, _)
SetLeaf(x, k, v) ==
    IF x.k = "num" THEN Num(v)
    ELSE LET Before(i) == LET RECURSIVE S(_) S(j) == IF j >= i THEN 0 ELSE NLeaves(x.xs[j]) + S(j + 1) IN S(1)
             i == CHOOSE i \in 1..Len(x.xs) : Before(i) < k /\ k <= Before(i) + NLeaves(x.xs[i])
         IN [x EXCEPT !.xs[i] = SetLeaf(x.xs[i], k - Before(i), v)]

EditLeaf(k, v) ==
    /\ steps < Depth /\ steps' = steps + 1
    /\ k \in 1..NLeaves(e)
    /\ LET r == SetLeaf(e, k, v) IN
          /\ Defined(Eval(r))
          /\ e' = r
          /\ last' = [got |-> Eval(r), want |-> Eval(SetLeaf(e, k, v))]
          /\ hist' = Append(hist, [op |-> "leaf", form |-> "inplace", operand |-> <<"leaf", k>>, leaf |-> v,
                                   value |-> Eval(r), text |-> Render(r)])

Next == \/ \E k \in 1..4 : \E v \in LeafVals : EditLeaf(k, v)
        \/ \E form \in {"plain", "inplace", "reflected"} : \E op \in {"+", "-", "*", "/"} : \E o \in Operands : Apply(form, op, o)
        \/ \E op \in {"+", "-"} : ApplyUnary(op)

Init == \E n \in Inits :
          /\ e = InitExpr(n) /\ steps = 0 /\ last = [got |-> <<0, 1>>, want |-> <<0, 1>>]
          /\ hist = <<[op |-> "init", form |-> "", operand |-> <<"expr", n>>, value |-> Eval(InitExpr(n)), text |-> Render(InitExpr(n))]>>

\* C13 at design level: the CST the algorithm builds denotes the arithmetic result
ValueOK == last.got = last.want
Emit == (steps = Depth) => PrintT(<<"TRACE", ToJson(hist)>>)
=============================================================================

------------------------------- MODULE Editor -------------------------------
(***************************************************************************)
(* editor.Editor.edit_file_recursive / edit_file as a session over a disk. *)
(*                                                                         *)
(* Files live in a small fixed directory tree (Dir).  Every file has a set *)
(* of include directives: by name of another file, `*.bean` (same          *)
(* directory) or `**/*.bean` (its directory, recursively).  A session:     *)
(*   Enter   BFS over includes from the root with a visited set            *)
(*           -> the mapping's keys = Reach(root), each file once           *)
(*           (an include that matches nothing raises ValueError)           *)
(*   body    EditModel(p), EditToken(p), EditRevert(p), DelKey(p), AddKey *)
(*   Exit    normal: removed keys unlinked, new keys created, changed      *)
(*           models written, unchanged files not touched                   *)
(*           raising: the disk is exactly as before                        *)
(* The expected final disk is part of every emitted behaviour.             *)
(***************************************************************************)
EXTENDS Naturals, Sequences, FiniteSets, TLC, Json

CONSTANTS Files,       \* e.g. {"a", "b", "c"}; "a" is the root
          Dir,         \* [file |-> directory as a sequence of names]
          IncMenu,     \* set of include-sets a file may have: each a set of targets/patterns
          Spellings,   \* how the root path is spelled
          Eols,        \* line-end conventions of the files
          MaxOps,      \* body operations per session
          Modes        \* subset of {"recursive", "single"}

VARIABLES inc, spelling, eol, mode, phase, keys, edited, reverted, removed, respelled, added, addedEmpty, addedDeep, raised, nops, hist
vars == <<inc, spelling, eol, mode, phase, keys, edited, reverted, removed, respelled, added, addedEmpty, addedDeep, raised, nops, hist>>

IsPrefix(s, t) == Len(s) <= Len(t) /\ SubSeq(t, 1, Len(s)) = s

\* files matched by one include item of file f
Targets(f, item) ==
    CASE item = "star" -> {g \in Files : Dir[g] = Dir[f]}
      [] item = "starstar" -> {g \in Files : IsPrefix(Dir[f], Dir[g])}
      [] item = "nomatch" -> {}
      [] item = "absa" -> {"a"}                 \* the root file named by its absolute path
      [] OTHER -> {item} \cap Files

Succ(f) == UNION {Targets(f, it) : it \in inc[f]}
Dangling(f) == \E it \in inc[f] : Targets(f, it) = {}

RECURSIVE ReachFrom(_, _)
ReachFrom(frontier, seen) ==
    IF frontier = {} THEN seen
    ELSE LET new == (UNION {Succ(f) : f \in frontier}) \ seen
         IN ReachFrom(new, seen \cup new)
Reach == ReachFrom({"a"}, {"a"})
EnterFails == \E f \in Reach : Dangling(f)

Init ==
    /\ inc \in [Files -> IncMenu]
    /\ spelling \in Spellings /\ eol \in Eols /\ mode \in Modes
    /\ phase = "start" /\ keys = {} /\ edited = {} /\ reverted = {} /\ removed = {} /\ respelled = {} /\ added = FALSE /\ addedEmpty = FALSE /\ addedDeep = FALSE
    /\ raised = FALSE /\ nops = 0 /\ hist = <<>>

Enter ==
    /\ phase = "start"
    /\ IF mode = "recursive" /\ EnterFails
       THEN /\ phase' = "done" /\ raised' = TRUE /\ keys' = {}
            /\ hist' = Append(hist, [op |-> "enter", exc |-> "ValueError", keys |-> {}])
       ELSE /\ phase' = "body" /\ raised' = FALSE
            /\ keys' = IF mode = "recursive" THEN Reach ELSE {"a"}
            /\ hist' = Append(hist, [op |-> "enter", exc |-> "", keys |-> IF mode = "recursive" THEN Reach ELSE {"a"}])
    /\ UNCHANGED <<inc, spelling, eol, mode, edited, reverted, removed, added, addedEmpty, addedDeep, nops, respelled>>

Body(op, f) == /\ phase = "body" /\ nops < MaxOps /\ nops' = nops + 1
               /\ hist' = Append(hist, [op |-> op, f |-> f])
               /\ UNCHANGED <<inc, spelling, eol, mode, phase, keys, raised>>

EditModel(f) == f \in keys \ removed /\ f \notin edited /\ edited' = edited \cup {f} /\ Body("edit", f)
                /\ UNCHANGED <<reverted, removed, added, addedEmpty, addedDeep, respelled>>
\* an edit that changes one token in place to a text of the same extent (no token is added or removed)
EditToken(f) == f \in keys \ removed /\ f \notin edited /\ edited' = edited \cup {f} /\ Body("edit-token", f)
                /\ UNCHANGED <<reverted, removed, added, addedEmpty, addedDeep, respelled>>
\* an entry is taken out of the mapping and put back under ANOTHER spelling of the same path (absolute <-> relative):
\* the file must still be there afterwards, with the printed model
Respell(f) == mode = "recursive" /\ f \in keys \ removed /\ f \notin respelled /\ respelled' = respelled \cup {f} /\ Body("respell", f)
              /\ UNCHANGED <<edited, reverted, removed, added, addedEmpty, addedDeep>>
EditRevert(f) == f \in keys \ (removed \cup edited \cup reverted) /\ reverted' = reverted \cup {f} /\ Body("edit-revert", f)
                 /\ UNCHANGED <<edited, removed, added, addedEmpty, addedDeep, respelled>>
DelKey(f) == mode = "recursive" /\ f \in keys \ removed /\ f \notin respelled /\ f # "a" /\ removed' = removed \cup {f} /\ Body("del", f)
             /\ UNCHANGED <<edited, reverted, added, addedEmpty, addedDeep, respelled>>
AddKey == mode = "recursive" /\ ~added /\ added' = TRUE /\ Body("add", "new")
          /\ UNCHANGED <<edited, reverted, removed, addedEmpty, addedDeep, respelled>>
\* a new entry whose model prints the empty text must still be created
AddEmptyKey == mode = "recursive" /\ ~addedEmpty /\ addedEmpty' = TRUE /\ Body("addempty", "empty")
               /\ UNCHANGED <<edited, reverted, removed, added, addedDeep, respelled>>
\* a new entry two missing directory levels below the root
AddDeepKey == mode = "recursive" /\ ~addedDeep /\ addedDeep' = TRUE /\ Body("adddeep", "deep")
              /\ UNCHANGED <<edited, reverted, removed, added, addedEmpty, respelled>>

\* expected disk after the session: per file <<exists, content, rewritten>>
Final(ok) ==
    [f \in Files \cup {"new", "empty", "deep"} |->
        IF f = "new" THEN [exists |-> ok /\ added, content |-> "new", rewritten |-> ok /\ added]
        ELSE IF f = "deep" THEN [exists |-> ok /\ addedDeep, content |-> "new", rewritten |-> ok /\ addedDeep]
        ELSE IF f = "empty" THEN [exists |-> ok /\ addedEmpty, content |-> "empty", rewritten |-> ok /\ addedEmpty]
        ELSE IF ok /\ f \in removed THEN [exists |-> FALSE, content |-> "", rewritten |-> FALSE]
        ELSE IF ok /\ f \in edited THEN [exists |-> TRUE, content |-> "edited", rewritten |-> TRUE]
        ELSE IF ok /\ f \in respelled THEN [exists |-> TRUE, content |-> "respelled", rewritten |-> TRUE]
        ELSE [exists |-> TRUE, content |-> "orig", rewritten |-> FALSE]]

Exit(r) ==
    /\ phase = "body"
    /\ phase' = "done" /\ raised' = r
    /\ hist' = Append(hist, [op |-> IF r THEN "raise" ELSE "exit", final |-> Final(~r)])
    /\ UNCHANGED <<inc, spelling, eol, mode, keys, edited, reverted, removed, added, addedEmpty, addedDeep, nops, respelled>>

Next == Enter \/ (\E f \in Files : EditModel(f) \/ EditToken(f) \/ EditRevert(f) \/ DelKey(f) \/ Respell(f)) \/ AddKey \/ AddEmptyKey \/ AddDeepKey \/ Exit(TRUE) \/ Exit(FALSE)

(* Design invariants *)
KeysAreReachable == phase = "body" /\ mode = "recursive" => keys = Reach /\ \A f \in keys : ~Dangling(f)
RootAlwaysVisited == phase = "body" => "a" \in keys
EditedAreKeys == edited \cup removed \cup reverted \subseteq keys
\* Reach is closed under includes and minimal
ReachClosed == \A f \in Reach : Succ(f) \subseteq Reach

Emit == (phase = "done") => PrintT(<<"TRACE", ToJson([inc |-> inc, spelling |-> spelling, eol |-> eol, mode |-> mode,
                                                      steps |-> hist, final |-> Final(~raised)])>>)
=============================================================================

----------------------------- MODULE PosProofs -----------------------------
(***************************************************************************)
(* Unbounded facts about token_store.Position that the block caches rely   *)
(* on: (Nat \X Nat, PAdd, <<0,0>>) is a monoid.  Hence the fold of cached  *)
(* block sizes equals the fold over tokens for ANY partition into blocks.  *)
(* Checked by tlapm (harness/checks/pos_proof.py), not by TLC.             *)
(***************************************************************************)
EXTENDS Naturals, TLAPS

P == Nat \X Nat
PZero == <<0, 0>>
PAdd(a, b) == IF b[1] > 0 THEN <<a[1] + b[1], b[2]>> ELSE <<a[1], a[2] + b[2]>>

THEOREM Closure == \A a, b \in P : PAdd(a, b) \in P
  BY DEF P, PAdd

THEOREM LeftIdentity == \A a \in P : PAdd(PZero, a) = a
  BY DEF P, PAdd, PZero

THEOREM RightIdentity == \A a \in P : PAdd(a, PZero) = a
  BY DEF P, PAdd, PZero

THEOREM Assoc == \A a, b, c \in P : PAdd(PAdd(a, b), c) = PAdd(a, PAdd(b, c))
  BY DEF P, PAdd
=============================================================================

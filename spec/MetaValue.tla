------------------------------ MODULE MetaValue ------------------------------
(***************************************************************************)
(* The value of a meta item (`key: value`) and of `pushmeta`: a typed      *)
(* union written through ONE value-level property                          *)
(*     models/meta_value_internal.py  optional_meta_value_property,        *)
(*                                    update_value, from_value             *)
(*     models/meta_item_internal.py   RepeatedMetaItemWrapper.__setitem__  *)
(* Four kinds are *simplified* (read and written as plain Python values:   *)
(* str, date, Decimal, bool), five are *preserved* (read and written as    *)
(* models: account, currency, tag, NULL, amount), and the value may be     *)
(* absent.  The transcription of update_value/from_value:                  *)
(*   - a plain value of the kind that is already there updates the child   *)
(*     in place (same child node);                                         *)
(*   - everything else (another kind, a model handed in, None) replaces or *)
(*     removes the child.                                                  *)
(* Abstract state: [kind, val] - what the property must read back (C09),   *)
(* what the printed text must re-parse to (C06/C09), while nothing but the *)
(* child and its adjacent separator may change (C03).                      *)
(***************************************************************************)
EXTENDS Naturals, Sequences, TLC, Json

CONSTANTS Kinds,      \* subset of AllKinds to generate
          Vals,       \* value representatives per kind, e.g. 1..2
          Routes,     \* subset of {"attr", "map"}: item.value = x  /  parent.meta[key] = x
          InitKinds,  \* kinds the parsed item may start with
          Depth

AllKinds == {"none", "str", "date", "num", "bool", "null", "account", "currency", "tag", "amount"}
Simple == {"str", "date", "num", "bool"}

VARIABLES kind, val, node, nextNode, steps, hist
vars == <<kind, val, node, nextNode, steps, hist>>

ValsOf(k) == IF k \in {"none", "null"} THEN {0} ELSE Vals

\* x.value = (k, v); asmodel: a simplified kind handed in as its model (EscapedString, Date, NumberExpr, Bool)
Set(route, k, v, asmodel) ==
    LET inplace == k = kind /\ k \in Simple /\ ~asmodel
        n2 == IF k = "none" THEN 0 ELSE IF inplace THEN node ELSE nextNode
    IN /\ kind' = k /\ val' = v /\ node' = n2
       /\ nextNode' = IF n2 = nextNode THEN nextNode + 1 ELSE nextNode
       /\ steps' = steps + 1
       /\ hist' = Append(hist, [route |-> route, k |-> k, v |-> v, asmodel |-> asmodel,
                                inplace |-> inplace, node |-> n2, changed |-> (k # kind \/ v # val)])

Next ==
    /\ steps < Depth
    /\ \E route \in Routes : \E k \in Kinds : \E v \in ValsOf(k) : \E asmodel \in BOOLEAN :
          /\ (asmodel => k \in Simple)
          /\ Set(route, k, v, asmodel)

Init ==
    \E k \in InitKinds : \E v \in ValsOf(k) :
        /\ kind = k /\ val = v /\ node = (IF k = "none" THEN 0 ELSE 1) /\ nextNode = 2 /\ steps = 0
        /\ hist = <<[route |-> "init", k |-> k, v |-> v, asmodel |-> FALSE, inplace |-> FALSE,
                     node |-> (IF k = "none" THEN 0 ELSE 1), changed |-> FALSE]>>

TypeOK == kind \in AllKinds /\ val \in ValsOf(kind) /\ (kind = "none" <=> node = 0) /\ node < nextNode
\* a child node is never shared between two values of different kinds: in-place updates keep the kind
InPlaceKeepsKind == \A i \in 2..Len(hist) : hist[i].inplace => hist[i].k = hist[i - 1].k /\ hist[i].node = hist[i - 1].node
Emit == (steps = Depth) => PrintT(<<"TRACE", ToJson(hist)>>)
=============================================================================

--------------------------- MODULE TokenSeqTrace ---------------------------
(***************************************************************************)
(* Trace validation (code -> spec) for the token store.                    *)
(* Input: IOEnv.TRACE_FILE, a JSON array of traces.  A trace is            *)
(*   [init |-> [ids, szs], events |-> Seq(event)]                          *)
(* and every event is one public call on the real TokenStore, logged at    *)
(* its return, with the observations made right after it:                  *)
(*   op    "splice" | "insert_after" | "update" | "observe"               *)
(*   r, e  token ids of ref / del_end (0 = None); t for update             *)
(*   toks  ids of the tokens passed in                                      *)
(*   exc   "" or the exception class raised                                 *)
(*   row   ids in list(store) order        len   len(store)                 *)
(*   szs   size of every row token computed from its *actual* raw_text     *)
(*   pos   get_position of every row token idx  get_index of every token   *)
(*   nxt / prv  get_next / get_prev of every row token (0 = None)          *)
(*   first / last                                                           *)
(*   txt   small integer naming the actual raw_text of every row token      *)
(* Document-level drivers add op "assign": token r was given a new value or *)
(* raw text through the model API; newtxt names the raw text it must have   *)
(* afterwards.  For an assign the frame condition of C02 is checked: the    *)
(* row is unchanged and every OTHER token has the text it had at the        *)
(* previous observation.                                                    *)
(* The spec computes the expected sequence itself from (op, r, e, toks);   *)
(* the logged row is compared, never trusted.                               *)
(* Verdicts are total: every trace ends in one PrintT'd VERDICT tuple.     *)
(***************************************************************************)
EXTENDS TokenSeq, TLC, Json, IOUtils

Traces == JsonDeserialize(IOEnv.TRACE_FILE)

VARIABLES tid, l, verdict, why, ptxt
tvars == <<seq, tsize, tid, l, verdict, why, ptxt>>

Ev == Traces[tid].events[l]
Done == l > Len(Traces[tid].events)

SizesFromLog(ev) == [k \in 1..Len(ev.row) |-> <<ev.szs[k][1], ev.szs[k][2]>>]

\* what the observations must be, given the expected sequence s and the actual sizes
ObsClause(ev, s) ==
    LET szs == SizesFromLog(ev) IN
    IF ev.row # s THEN "row"
    ELSE IF ev.len # Len(s) THEN "len"
    ELSE IF ev.first # FirstOf(s) \/ ev.last # LastOf(s) THEN "firstlast"
    ELSE IF \E i \in 1..Len(s) : ev.idx[i] # Ordinal(i) THEN "index"
    ELSE IF \E i \in 1..Len(s) : ev.nxt[i] # NextOf(s, i) \/ ev.prv[i] # PrevOf(s, i) THEN "nextprev"
    ELSE IF \E i \in 1..Len(s) : <<ev.pos[i][1], ev.pos[i][2]>> # PosOf(szs, i) THEN "position"
    ELSE IF ev.op = "assign" /\ Len(ptxt) = Len(s) /\
            (\E i \in 1..Len(s) : i # ev.apos /\ ev.txt[i] # ptxt[i]) THEN "other-token-text"
    ELSE IF ev.op = "assign" /\ ev.apos \in 1..Len(s) /\ ev.txt[ev.apos] # ev.newtxt THEN "assigned-text"
    ELSE "ok"

\* The token right after the replaced range: whether re-inserting it is refused is not
\* part of the store's contract (the guard is inclusive there); such calls are not judged.
Boundary(toks, i) == i <= Len(seq) /\ \E k \in 1..Len(toks) : toks[k] = seq[i]

Expected(ev) ==
    CASE ev.op = "splice" ->
            IF ~SpliceWellFormed(ev.r, ev.e) THEN [refuse |-> TRUE, s |-> seq, dom |-> FALSE]
            ELSE IF Boundary(ev.toks, SpliceEnd(ev.r, ev.e) + 1) THEN [refuse |-> TRUE, s |-> seq, dom |-> FALSE]
            ELSE IF SpliceForeign(ev.toks, ev.r, ev.e) THEN [refuse |-> TRUE, s |-> seq, dom |-> TRUE]
            ELSE [refuse |-> FALSE, s |-> SpliceResult(ev.toks, ev.r, ev.e), dom |-> TRUE]
      [] ev.op = "insert_after" ->
            IF ~(ev.r = 0 \/ In(ev.r)) THEN [refuse |-> TRUE, s |-> seq, dom |-> FALSE]
            ELSE IF Boundary(ev.toks, (IF ev.r = 0 THEN 0 ELSE IndexIn(seq, ev.r)) + 1)
                 THEN [refuse |-> TRUE, s |-> seq, dom |-> FALSE]
            ELSE IF \E k \in 1..Len(ev.toks) : In(ev.toks[k]) THEN [refuse |-> TRUE, s |-> seq, dom |-> TRUE]
            ELSE [refuse |-> FALSE, s |-> InsertAfterResult(ev.toks, ev.r), dom |-> TRUE]
      [] ev.op = "assign" ->
            \* the assigned token itself may be replaced by ONE new token at its place (value-level properties);
            \* every other position must hold the same token object
            [refuse |-> FALSE, dom |-> TRUE,
             s |-> IF Len(ev.row) = Len(seq) /\ ev.apos \in 1..Len(seq) /\ ev.row[ev.apos] \notin SeqSet(seq)
                   THEN [seq EXCEPT ![ev.apos] = ev.row[ev.apos]] ELSE seq]
      [] OTHER -> [refuse |-> FALSE, s |-> seq, dom |-> TRUE]

Step ==
    /\ verdict = "run" /\ ~Done
    /\ LET ev == Ev  x == Expected(ev)
           clause == IF ~x.dom THEN "ok"                          \* call outside the store's contract: not judged
                     ELSE IF x.refuse /\ ev.exc = "" THEN "not-refused"
                     ELSE IF ev.op = "assign" /\ ev.exc # "" THEN     \* value outside the type's domain: a refusal,
                          (IF ev.row # seq THEN "row"                   \* which must be a stutter (C19)
                           ELSE IF Len(ptxt) = Len(seq) /\ ev.txt # ptxt THEN "refused-assign-changed-text"
                           ELSE "ok")
                     ELSE IF ~x.refuse /\ ev.exc # "" THEN "raised-" \o ev.exc
                     ELSE IF ~NoDuplicates(x.s) THEN "ok"          \* duplicate insertion: outside the contract
                     ELSE ObsClause(ev, x.s)
       IN /\ seq' = IF clause = "ok" /\ x.dom THEN x.s ELSE ev.row
          /\ verdict' = IF clause = "ok" THEN "run" ELSE "rejected"
          /\ why' = IF clause = "ok" THEN why ELSE clause
          /\ l' = l + 1
          /\ ptxt' = ev.txt
          /\ UNCHANGED <<tid, tsize>>

Finish ==
    /\ verdict = "run" /\ Done
    /\ verdict' = "accepted"
    /\ UNCHANGED <<seq, tsize, tid, l, why, ptxt>>

TInit ==
    /\ tid \in 1..Len(Traces)
    /\ seq = Traces[tid].init.ids
    /\ tsize = <<>>
    /\ l = 1 /\ verdict = "run" /\ why = "" /\ ptxt = <<>>

TNext == Step \/ Finish

Report == (verdict # "run") => PrintT(<<"VERDICT", tid, verdict, l - 1, why>>)
=============================================================================

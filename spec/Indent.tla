------------------------------- MODULE Indent -------------------------------
(***************************************************************************)
(* Indentation of children created from values (C18).                      *)
(* A parent (an entry, whose own indentation is empty, or a posting with   *)
(* indentation pind) holds meta items with indentations `sib`.             *)
(*   NewIndent == the indentation shared by the existing items when there  *)
(*                are any, else the parent's indentation followed by its   *)
(*                indent_by                                                *)
(* Raw items keep their own indentation; comments created by the indented  *)
(* comment setters take the owner line's indentation; nothing existing     *)
(* changes.  With non-uniform existing indentation the statement does not  *)
(* determine the value: only "one of the siblings'" is required.           *)
(***************************************************************************)
EXTENDS Naturals, Sequences, FiniteSets, TLC, Json

CONSTANTS Parents,     \* set of <<kind, own indentation>>: <<"entry", "">>, <<"posting", "    ">> ...
          Layouts,     \* set of initial sibling-indentation sequences
          IndentBys,   \* set of indent_by strings
          RawIndents,  \* indentations raw items are built with
          Depth

VARIABLES parent, sib, by, steps, hist
vars == <<parent, sib, by, steps, hist>>

SetOf(s) == {s[i] : i \in 1..Len(s)}
Uniform(s) == Cardinality(SetOf(s)) <= 1
\* the set of admissible indentations for an item created from a value
NewIndent(p, s, b) == IF s = <<>> THEN {p[2] \o b} ELSE SetOf(s)

Init == /\ parent \in Parents /\ sib \in Layouts /\ by \in IndentBys /\ steps = 0
        /\ hist = <<[op |-> "init", parent |-> parent, sib |-> sib, by |-> by, expect |-> {}]>>

Rec(op, arg, expect, sib2, by2) ==
    hist' = Append(hist, [op |-> op, arg |-> arg, expect |-> expect, sib |-> sib2, by |-> by2, parent |-> parent])

\* parent.meta[key] = value   (new key)
AddByValue == /\ steps < Depth /\ steps' = steps + 1
              /\ \E i \in NewIndent(parent, sib, by) :
                    /\ sib' = Append(sib, i)
                    /\ Rec("add_value", "", NewIndent(parent, sib, by), Append(sib, i), by)
              /\ UNCHANGED <<parent, by>>
\* parent.raw_meta.append(MetaItem.from_value(..., indent = r))
AppendRaw(r) == /\ steps < Depth /\ steps' = steps + 1
                /\ sib' = Append(sib, r)
                /\ Rec("append_raw", r, {r}, Append(sib, r), by)
                /\ UNCHANGED <<parent, by>>
SetIndentBy(b) == /\ steps < Depth /\ steps' = steps + 1 /\ b # by
                  /\ by' = b /\ Rec("indent_by", b, {}, sib, b)
                  /\ UNCHANGED <<parent, sib>>
\* posting.indent = i : the parent's own indentation changes (existing meta lines keep theirs)
SetParentIndent(i) == /\ steps < Depth /\ steps' = steps + 1 /\ parent[1] = "posting" /\ i # parent[2]
                      /\ parent' = <<"posting", i>>
                      /\ hist' = Append(hist, [op |-> "parent_indent", arg |-> i, expect |-> {}, sib |-> sib, by |-> by, parent |-> <<"posting", i>>])
                      /\ UNCHANGED <<sib, by>>
\* a raw standalone comment with its own indentation is put at the front of the list: it is not a meta item,
\* so it does not take part in "the indentation shared by the existing sibling items"
InsertComment(r) == /\ steps < Depth /\ steps' = steps + 1
                    /\ Rec("insert_comment", r, {}, sib, by)
                    /\ UNCHANGED <<parent, sib, by>>
ClearAll == /\ steps < Depth /\ steps' = steps + 1 /\ sib # <<>>
            /\ sib' = <<>> /\ Rec("clear", "", {}, <<>>, by)
            /\ UNCHANGED <<parent, by>>
\* owner.leading_comment = "text" / owner.trailing_comment = "text" on the k-th meta item (0 = the posting itself)
SetComment(k, side) == /\ steps < Depth /\ steps' = steps + 1
                       /\ (k = 0 => parent[1] = "posting") /\ (k > 0 => k <= Len(sib))
                       /\ Rec("comment_" \o side, k, {IF k = 0 THEN parent[2] ELSE sib[k]}, sib, by)
                       /\ UNCHANGED <<parent, sib, by>>

Next == AddByValue \/ (\E r \in RawIndents : AppendRaw(r)) \/ (\E i \in RawIndents : SetParentIndent(i)) \/ (\E r \in RawIndents : InsertComment(r)) \/ (\E b \in IndentBys : SetIndentBy(b)) \/ ClearAll
        \/ (\E k \in 0..2 : \E side \in {"leading", "trailing"} : SetComment(k, side))

\* a value-created item never invents an indentation when siblings exist
NoInvention == \A i \in 1..Len(hist) : hist[i].op = "add_value" => hist[i].expect # {}
Emit == (steps = Depth) => PrintT(<<"TRACE", ToJson(hist)>>)
=============================================================================

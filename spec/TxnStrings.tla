----------------------------- MODULE TxnStrings -----------------------------
(***************************************************************************)
(* The payee / narration group of a transaction (C09): a record of two     *)
(* optionals with the rule "a payee implies a narration" (the narration    *)
(* becomes the empty string when it would otherwise be absent).            *)
(* Values: 0 = None, 1 = "", 2.. = non-empty strings.                      *)
(***************************************************************************)
EXTENDS Naturals, Sequences, TLC, Json
CONSTANTS Vals, Depth,     \* Vals e.g. 0..3
          WithAttached    \* also generate the refused raw-level assignments of attached nodes
VARIABLES payee, narration, steps, hist
vars == <<payee, narration, steps, hist>>

Init == \E p \in Vals, n \in Vals :
          /\ (p # 0 => n # 0)                         \* what a parsed header can hold: none, one or two strings
          /\ payee = p /\ narration = n /\ steps = 0
          /\ hist = <<[op |-> "init", v |-> 0, payee |-> p, narration |-> n]>>

SetPayee(v) == /\ steps < Depth /\ steps' = steps + 1
               /\ payee' = v
               /\ narration' = IF v # 0 /\ narration = 0 THEN 1 ELSE narration
               /\ hist' = Append(hist, [op |-> "payee", v |-> v, payee |-> v,
                                        narration |-> IF v # 0 /\ narration = 0 THEN 1 ELSE narration])
SetNarration(v) == /\ steps < Depth /\ steps' = steps + 1
                   /\ narration' = IF v = 0 /\ payee # 0 THEN 1 ELSE v
                   /\ UNCHANGED payee
                   /\ hist' = Append(hist, [op |-> "narration", v |-> v, payee |-> payee,
                                            narration |-> IF v = 0 /\ payee # 0 THEN 1 ELSE v])
\* C19: a string node that already lives in a document, handed to the raw-level setters, is refused - and the
\* implied empty narration must not have been written by then
Attached(which) == /\ steps < Depth /\ steps' = steps + 1
                   /\ UNCHANGED <<payee, narration>>
                   /\ hist' = Append(hist, [op |-> which, v |-> 0, payee |-> payee, narration |-> narration, exc |-> "ValueError"])
Next == \/ \E v \in Vals : SetPayee(v) \/ SetNarration(v)
        \/ (WithAttached /\ \E which \in {"raw_payee", "raw_narration"} : Attached(which))

PayeeImpliesNarration == payee # 0 => narration # 0
Emit == (steps = Depth) => PrintT(<<"TRACE", ToJson(hist)>>)
=============================================================================

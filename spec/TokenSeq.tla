------------------------------ MODULE TokenSeq ------------------------------
(***************************************************************************)
(* The abstract token store: a plain sequence of token identities, each    *)
(* with a size.  This module *is* properties C07 and C08: every observation*)
(* of the real store must equal the corresponding operator below.          *)
(***************************************************************************)
EXTENDS Naturals, Integers, Sequences, FiniteSets, Pos

VARIABLES seq,    \* Seq(token id)
          tsize   \* [token id -> <<lines, columns>>] for every token ever seen

SeqSet(s) == {s[i] : i \in 1..Len(s)}
IndexIn(s, t) == CHOOSE i \in 1..Len(s) : s[i] = t
In(t) == t \in SeqSet(seq)

\* splice(tokens, ref, del_end): ref = 0 / del_end = 0 stand for None
SpliceStart(r) == IF r = 0 THEN 1 ELSE IndexIn(seq, r)
SpliceEnd(r, e) == IF e = 0 THEN SpliceStart(r) - 1 ELSE IndexIn(seq, e)
SpliceWellFormed(r, e) == (r = 0 \/ In(r)) /\ (e = 0 \/ In(e)) /\ SpliceEnd(r, e) >= SpliceStart(r) - 1
SpliceRemoved(r, e) == SubSeq(seq, SpliceStart(r), SpliceEnd(r, e))
\* a token that is in the store outside the replaced range must be refused
SpliceForeign(toks, r, e) == \E k \in 1..Len(toks) : In(toks[k]) /\ toks[k] \notin SeqSet(SpliceRemoved(r, e))
SpliceResult(toks, r, e) ==
    SubSeq(seq, 1, SpliceStart(r) - 1) \o toks \o SubSeq(seq, SpliceEnd(r, e) + 1, Len(seq))

InsertAfterResult(toks, r) ==
    LET a == IF r = 0 THEN 0 ELSE IndexIn(seq, r)
    IN SubSeq(seq, 1, a) \o toks \o SubSeq(seq, a + 1, Len(seq))

\* observations
Sizes(s) == [i \in 1..Len(s) |-> tsize[s[i]]]
Position(s, i) == PosOf(Sizes(s), i)          \* get_position of the i-th token
Ordinal(i) == i - 1                           \* get_index
NextOf(s, i) == IF i < Len(s) THEN s[i + 1] ELSE 0
PrevOf(s, i) == IF i > 1 THEN s[i - 1] ELSE 0
FirstOf(s) == IF s = <<>> THEN 0 ELSE s[1]
LastOf(s) == IF s = <<>> THEN 0 ELSE s[Len(s)]
NoDuplicates(s) == \A i, j \in 1..Len(s) : s[i] = s[j] => i = j
=============================================================================

-------------------------------- MODULE Docs --------------------------------
(***************************************************************************)
(* Documents and copies (C11, C20): a set of token stores, each holding a  *)
(* tree.  Recorded executions are validated against these rules:           *)
(*   copy    copy.deepcopy(model): a NEW store whose tokens are disjoint   *)
(*           from every other store, whose text is exactly the text the    *)
(*           original spans, which is a complete self-contained tree and   *)
(*           compares equal to the original (both ways)                    *)
(*   edit(s) any edit made through store s: every OTHER store keeps its    *)
(*           text and its token identities                                 *)
(*   eq      a == b must be symmetric and equal                            *)
(*              Eq(a, b) == same type /\ same text /\ same structure       *)
(*   hash    for tokens, a == b implies hash(a) = hash(b)                  *)
(* Observations per store: txt (small int naming the printed text) and     *)
(* toks (the ids of its token objects, in order).                          *)
(***************************************************************************)
EXTENDS Naturals, Sequences, FiniteSets, TLC, Json, IOUtils

Traces == JsonDeserialize(IOEnv.TRACE_FILE)

VARIABLES tid, l, verdict, why, stores
vars == <<tid, l, verdict, why, stores>>

Ev == Traces[tid].events[l]
Done == l > Len(Traces[tid].events)
SetOf(s) == {s[i] : i \in 1..Len(s)}

\* the specification's equality
Eq(ev) == ev.sametype /\ ev.sametext /\ ev.samestruct

Disjoint(obs) == \A i, j \in 1..Len(obs) : i # j => SetOf(obs[i].toks) \cap SetOf(obs[j].toks) = {}
NoDupTokens(obs) == \A i \in 1..Len(obs) : Cardinality(SetOf(obs[i].toks)) = Len(obs[i].toks)

Clause(ev) ==
    IF ~Disjoint(ev.obs) THEN "token-in-two-stores"
    ELSE IF ~NoDupTokens(ev.obs) THEN "token-twice-in-a-store"
    ELSE IF ev.op = "copy" THEN
        IF Len(ev.obs) # Len(stores) + 1 THEN "copy-did-not-create-a-store"
        ELSE IF \E i \in 1..Len(stores) : ev.obs[i] # stores[i] THEN "copy-changed-another-store"
        ELSE IF ev.obs[Len(ev.obs)].txt # ev.slice THEN "copy-text-differs-from-span"
        ELSE IF ~ev.selfcontained THEN "copy-not-a-complete-tree"
        ELSE IF ~(ev.eq1 /\ ev.eq2) THEN "copy-not-equal-to-original"
        ELSE IF ~ev.claimsame THEN "copy-changes-comment-claimed-flags"
        ELSE "ok"
    ELSE IF ev.op = "edit" THEN
        IF ev.exc THEN (IF ev.obs # stores THEN "refused-edit-changed-something" ELSE "ok")
        ELSE IF Len(ev.obs) # Len(stores) THEN "store-count"
        ELSE IF \E i \in 1..Len(stores) : i # ev.store /\ ev.obs[i] # stores[i] THEN "edit-changed-another-store"
        ELSE IF ~ev.wellformed THEN "edited-tree-not-well-formed"
        ELSE "ok"
    ELSE IF ev.op = "eq" THEN
        IF ev.r1 # ev.r2 THEN "equality-not-symmetric"
        ELSE IF ev.r1 # Eq(ev) THEN (IF ev.r1 THEN "equal-but-differs" ELSE "unequal-but-same-type-text-structure")
        ELSE IF ev.obs # stores THEN "comparison-changed-a-store"
        ELSE "ok"
    ELSE IF ev.op = "hash" THEN
        IF ev.r1 /\ ~ev.samehash THEN "equal-tokens-different-hash" ELSE "ok"
    ELSE "ok"

Step == /\ verdict = "run" /\ ~Done
        /\ LET c == IF Ev.op = "init" THEN (IF Disjoint(Ev.obs) THEN "ok" ELSE "token-in-two-stores") ELSE Clause(Ev)
           IN /\ verdict' = IF c = "ok" THEN "run" ELSE "rejected"
              /\ why' = IF c = "ok" THEN why ELSE c
        /\ stores' = Ev.obs
        /\ l' = l + 1 /\ UNCHANGED tid
Finish == verdict = "run" /\ Done /\ verdict' = "accepted" /\ UNCHANGED <<tid, l, why, stores>>
TInit == tid \in 1..Len(Traces) /\ l = 1 /\ verdict = "run" /\ why = "" /\ stores = <<>>
TNext == Step \/ Finish
Report == (verdict # "run") => PrintT(<<"VERDICT", tid, verdict, l - 1, why>>)
=============================================================================

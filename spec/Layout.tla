------------------------------- MODULE Layout -------------------------------
(***************************************************************************)
(* Documents as sequences of structural line classes (the input space of   *)
(* C01, C02, C04, C11, C14, C17, C20) and the nesting automaton of the     *)
(* grammar (file -> entry -> {meta, posting -> posting-meta}).             *)
(*                                                                         *)
(* Every reachable state IS a document: `lines` grows one line per step.   *)
(* The harness renders each class to concrete text (several concrete       *)
(* directives per class), applies the per-line variant `dev` (indent style,*)
(* trailing trivia) and the global line-end convention, and feeds it to    *)
(* the real parser.  `Accepts` is the specification's prediction of the    *)
(* parser's verdict; a disagreement is drift, never a violation (C01 is    *)
(* conditional on acceptance).                                             *)
(***************************************************************************)
EXTENDS Naturals, Sequences, TLC, Json

CONSTANTS
    Kinds,       \* subset of the line classes below
    MaxLines,
    Devs,        \* per-line deviations: "none" plus e.g. "tab", "sp1", "sp8", "trail", "inline", "trailinline"
    Eols,        \* subset of {"lf", "crlf"}
    Finals       \* subset of {TRUE, FALSE}: does the text end with a line end?

(* line classes
   "dir"    entry that may carry meta     2000-01-01 open Assets:A
   "txn"    transaction header            2000-01-01 * "p"
   "meta"   indented meta line                kk: 1
   "post"   posting                           Assets:A  1 USD
   "pmeta"  deeper-indented meta line             pk: 2
   "com"    unindented block comment      ; c
   "icom"   indented block comment            ; c
   "dcom"   deeper-indented block comment         ; c
   "blank"  empty line
   "ws"     whitespace-only line
   "head"   org-mode heading (ignored)    * heading
   "opt"    directive without date/body   option "a" "b"                                   *)

VARIABLES lines, devAt, dev, eol, final
vars == <<lines, devAt, dev, eol, final>>

Indented(k) == k \in {"meta", "post", "pmeta", "icom", "dcom", "ws"}
IsComment(k) == k \in {"com", "icom", "dcom"}

(* Nesting automaton.  ctx: "top" outside any entry; "dir0"/"txn0" right after an entry /      *)
(* transaction header, body not started (an unindented comment there does not end the entry);   *)
(* "dir" inside the indented body of an entry (meta allowed); "txn" inside a transaction body   *)
(* before any posting (meta, postings); "post" after a posting (posting meta, postings).        *)
(* A blank, whitespace-only or (once the body has started) unindented line closes the body.     *)
Body(ctx) == CASE ctx = "dir0" -> "dir" [] ctx = "txn0" -> "txn" [] OTHER -> ctx
StepCtx(ctx, k) ==
    CASE k = "dir" -> "dir0"
      [] k = "txn" -> "txn0"
      [] k \in {"opt", "head", "blank", "ws"} -> "top"
      [] k = "com" -> IF ctx \in {"dir0", "txn0"} THEN ctx ELSE "top"
      [] k \in {"meta", "pmeta"} -> IF Body(ctx) \in {"dir", "txn", "post"} THEN Body(ctx) ELSE "reject"
      [] k = "post" -> IF Body(ctx) \in {"txn", "post"} THEN "post" ELSE "reject"
      [] k \in {"icom", "dcom"} -> Body(ctx)
      [] OTHER -> "reject"

RECURSIVE Run(_, _)
Run(ctx, ls) == IF ls = <<>> \/ ctx = "reject" THEN ctx ELSE Run(StepCtx(ctx, Head(ls)), Tail(ls))
Accepts(ls) == Run("top", ls) # "reject"

Init == lines = <<>> /\ devAt = 0 /\ dev = "none" /\ eol \in Eols /\ final \in Finals

AddLine(k) ==
    /\ Len(lines) < MaxLines
    /\ lines' = Append(lines, k)
    /\ \/ UNCHANGED <<devAt, dev>>
       \/ devAt = 0 /\ \E d \in Devs \ {"none"} : devAt' = Len(lines) + 1 /\ dev' = d
    /\ UNCHANGED <<eol, final>>

Next == \E k \in Kinds : AddLine(k)

Emit == PrintT(<<"TRACE", ToJson([lines |-> lines, devAt |-> devAt, dev |-> dev, eol |-> eol, final |-> final,
                                  accept |-> Accepts(lines)])>>)

\* every document is a state; nothing to check on the design itself except that the automaton is total
TypeOK == Run("top", lines) \in {"top", "dir0", "txn0", "dir", "txn", "post", "reject"}
=============================================================================

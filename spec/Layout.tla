------------------------------- MODULE Layout -------------------------------
(***************************************************************************)
(* Documents as sequences of structural line classes (the input space of   *)
(* C01, C02, C04, C11, C14, C17, C20) and the nesting automaton of the     *)
(* grammar (file -> entry -> {meta, posting -> posting-meta}).             *)
(*                                                                         *)
(* Every reachable state IS a document: `lines` grows one line per step.   *)
(* The harness renders each class to concrete text (several concrete       *)
(* directives per class), applies the per-line variant `dev` (indent style,*)
(* trailing trivia) and the global line-end convention, and feeds it to    *)
(* the real parser.  `Accepts` is the specification's prediction of the    *)
(* parser's verdict; a disagreement is drift, never a violation (C01 is    *)
(* conditional on acceptance).                                             *)
(***************************************************************************)
EXTENDS Naturals, Sequences, TLC, Json

CONSTANTS
    Kinds,       \* subset of the line classes below
    MaxLines,
    Devs,        \* per-line deviations: "none" plus e.g. "tab", "sp1", "sp8", "trail", "inline", "trailinline"
    Eols,        \* subset of {"lf", "crlf"}
    Finals       \* subset of {TRUE, FALSE}: does the text end with a line end?

(* line classes
   "dir"    entry that may carry meta     2000-01-01 open Assets:A
   "txn"    transaction header            2000-01-01 * "p"
   "meta"   indented meta line                kk: 1
   "post"   posting                           Assets:A  1 USD
   "pmeta"  deeper-indented meta line             pk: 2
   "com"    unindented block comment      ; c
   "icom"   indented block comment            ; c
   "dcom"   deeper-indented block comment         ; c
   "blank"  empty line
   "ws"     whitespace-only line
   "head"   org-mode heading (ignored)    * heading
   "opt"    directive without date/body   option "a" "b"                                   *)

VARIABLES lines, devAt, dev, eol, final
vars == <<lines, devAt, dev, eol, final>>

Indented(k) == k \in {"meta", "post", "pmeta", "icom", "dcom", "ws"}
IsComment(k) == k \in {"com", "icom", "dcom"}

(* Nesting automaton.  ctx: "top" outside any entry; "dir0"/"txn0" right after an entry /      *)
(* transaction header, body not started (an unindented comment there does not end the entry);   *)
(* "dir" inside the indented body of an entry (meta allowed); "txn" inside a transaction body   *)
(* before any posting (meta, postings); "post" after a posting (posting meta, postings).        *)
(* A blank, whitespace-only or (once the body has started) unindented line closes the body.     *)
Body(ctx) == CASE ctx = "dir0" -> "dir" [] ctx = "txn0" -> "txn" [] OTHER -> ctx
StepCtx(ctx, k) ==
    CASE k = "dir" -> "dir0"
      [] k = "txn" -> "txn0"
      [] k \in {"opt", "head", "blank", "ws"} -> "top"
      [] k = "com" -> IF ctx \in {"dir0", "txn0"} THEN ctx ELSE "top"
      [] k \in {"meta", "pmeta"} -> IF Body(ctx) \in {"dir", "txn", "post"} THEN Body(ctx) ELSE "reject"
      [] k = "post" -> IF Body(ctx) \in {"txn", "post"} THEN "post" ELSE "reject"
      [] k \in {"icom", "dcom"} -> Body(ctx)
      [] OTHER -> "reject"

RECURSIVE Run(_, _)
Run(ctx, ls) == IF ls = <<>> \/ ctx = "reject" THEN ctx ELSE Run(StepCtx(ctx, Head(ls)), Tail(ls))
Accepts(ls) == Run("top", ls) # "reject"

(* ---------------------------------------------------------------------- *)
(* The documented attribution order (C14), for the comment groups where it *)
(* is unambiguous.  A group is a maximal run of comment lines.  The         *)
(* indentation CLASS of a line is indented / unindented (what the lexer's   *)
(* indent and dedent marks distinguish).                                    *)
(*   leading   the model directly below has the same class                  *)
(*   trailing  else: some model of the same class ends on the line directly *)
(*             above (the line's own model or a model enclosing it - which  *)
(*             of them is not prescribed: all are candidates)               *)
(*   standalone otherwise                                                   *)
IsModel(k) == k \in {"dir", "txn", "opt", "head", "meta", "post", "pmeta"}
Cls(k) == IF Indented(k) THEN 1 ELSE 0
CtxBefore(ls, i) == Run("top", SubSeq(ls, 1, i - 1))

\* groups for which the rule is ambiguous are not judged
Ambiguous(ls, i, j) ==
    \/ \E k \in i..j : ls[k] # ls[i]                                       \* mixed indentation inside the group
    \/ (Indented(ls[i]) /\ Body(CtxBefore(ls, i)) \notin {"dir", "txn", "post"})   \* indented comment outside any body
    \/ (~Indented(ls[i]) /\ CtxBefore(ls, i) \in {"dir0", "txn0"} /\ j < Len(ls) /\ Indented(ls[j + 1]))
                                                                          \* unindented comment between a header and its body

\* header lines of the models whose span ends exactly on line e
EndingAt(ls, e) ==
    IF e = 0 THEN {}
    ELSE (IF IsModel(ls[e]) THEN {e} ELSE {})
         \cup {h \in 1..e - 1 : ls[h] \in {"dir", "txn"} /\ Indented(ls[e]) /\
                  \A j \in h + 1..e : \/ (Indented(ls[j]) /\ ls[j] # "ws")
                                      \/ (ls[j] = "com" /\ \A k \in h + 1..j : ls[k] = "com")}   \* comments between header and body
         \cup {h \in 1..e - 1 : ls[h] = "post" /\ \A j \in h + 1..e : ls[j] \in {"pmeta", "meta", "icom", "dcom"}}

GroupStarts(ls) == {i \in 1..Len(ls) : IsComment(ls[i]) /\ (i = 1 \/ ~IsComment(ls[i - 1]))}
GroupEnd(ls, i) == CHOOSE j \in i..Len(ls) : (\A k \in i..j : IsComment(ls[k])) /\ (j = Len(ls) \/ ~IsComment(ls[j + 1]))

SetToSeq(S) == LET RECURSIVE B(_) B(T) == IF T = {} THEN <<>>
                                           ELSE LET m == CHOOSE x \in T : \A y \in T : x <= y IN <<m>> \o B(T \ {m})
               IN B(S)

RuleFor(ls, i) ==
    LET j == GroupEnd(ls, i)  c == Cls(ls[i])
        cands == {h \in EndingAt(ls, i - 1) : Cls(ls[h]) = c}
    IN IF Ambiguous(ls, i, j) THEN [line |-> i, kind |-> "skip", owners |-> <<>>]
       ELSE IF j < Len(ls) /\ IsModel(ls[j + 1]) /\ Cls(ls[j + 1]) = c THEN [line |-> i, kind |-> "leading", owners |-> <<j + 1>>]
       ELSE IF cands # {} THEN [line |-> i, kind |-> "trailing", owners |-> SetToSeq(cands)]
       ELSE [line |-> i, kind |-> "standalone", owners |-> <<>>]

Rule(ls) == IF ~Accepts(ls) THEN <<>>
            ELSE LET S == SetToSeq(GroupStarts(ls)) IN [k \in 1..Len(S) |-> RuleFor(ls, S[k])]

Init == lines = <<>> /\ devAt = 0 /\ dev = "none" /\ eol \in Eols /\ final \in Finals

AddLine(k) ==
    /\ Len(lines) < MaxLines
    /\ lines' = Append(lines, k)
    /\ \/ UNCHANGED <<devAt, dev>>
       \/ devAt = 0 /\ \E d \in Devs \ {"none"} : devAt' = Len(lines) + 1 /\ dev' = d
    /\ UNCHANGED <<eol, final>>

Next == \E k \in Kinds : AddLine(k)

Emit == PrintT(<<"TRACE", ToJson([lines |-> lines, devAt |-> devAt, dev |-> dev, eol |-> eol, final |-> final,
                                  accept |-> Accepts(lines), rule |-> Rule(lines)])>>)

\* every document is a state; nothing to check on the design itself except that the automaton is total
TypeOK == Run("top", lines) \in {"top", "dir0", "txn0", "dir", "txn", "post", "reject"}
=============================================================================

------------------------------- MODULE Slots -------------------------------
(***************************************************************************)
(* Fixed slots of a model class: required and optional children, set       *)
(* through the node-level API (x.raw_f = node / None) or the value-level   *)
(* API (x.f = value / None).  The schema of every class is extracted       *)
(* reflectively from the library by the harness and passed in `Classes`.   *)
(*                                                                         *)
(* State: which slots are present and the identity (`gen`) of each child.  *)
(* Every action names ONE slot; the frame condition - every other slot     *)
(* keeps presence and identity - is the C03/C05 content of this module,    *)
(* refusals are stutters (C19), value writes are read back (C09).          *)
(***************************************************************************)
EXTENDS Naturals, Sequences, FiniteSets, TLC, Json

CONSTANTS Classes,      \* [class name |-> [slots |-> Seq([name, kind, val]), inits |-> Seq(presence vector)]]
          Depth,
          OpSet,        \* operations to generate (subset of the op names below)
          WithAttached

VARIABLES cls, init, present, gen, nextGen, steps, last, hist
vars == <<cls, init, present, gen, nextGen, steps, last, hist>>

Slots == Classes[cls].slots
N == Len(Slots)

Rec(op, i, exc) == [op |-> op, slot |-> i, name |-> Slots[i].name, exc |-> exc]

Do(op, i, exc, p2, g2) ==
    /\ (op \in OpSet \/ (exc # "" /\ "attached" \in OpSet))
    /\ steps < Depth /\ steps' = steps + 1
    /\ present' = p2 /\ gen' = g2
    /\ nextGen' = nextGen + 1
    /\ last' = [slot |-> i, exc |-> exc, p0 |-> present, g0 |-> gen]
    /\ hist' = Append(hist, Rec(op, i, exc) @@ [present |-> p2, gen |-> g2])
    /\ UNCHANGED <<cls, init>>

\* node-level: x.raw_f = fresh donor   (create when absent, replace when present)
SetNode(i) == Do("set", i, "", [present EXCEPT ![i] = TRUE], [gen EXCEPT ![i] = nextGen])
\* node-level: x.raw_f = None
ClearNode(i) == /\ Slots[i].kind = "opt"
                /\ Do("clear", i, "", [present EXCEPT ![i] = FALSE], [gen EXCEPT ![i] = 0])
\* x.raw_f = x.raw_f
SetSame(i) == present[i] /\ Do("same", i, "", present, gen)
\* value-level: x.f = v : in place when present (identity kept or replaced: not prescribed), created when absent
SetValue(i) == /\ Slots[i].val
               /\ Do("vset", i, "", [present EXCEPT ![i] = TRUE], [gen EXCEPT ![i] = IF present[i] THEN gen[i] ELSE nextGen])
\* the same with an edge value of the type (zero, empty string): must still be "a value", not "absent"
SetValueEdge(i) == /\ Slots[i].val
                   /\ Do("vsetedge", i, "", [present EXCEPT ![i] = TRUE], [gen EXCEPT ![i] = IF present[i] THEN gen[i] ELSE nextGen])
\* value-level: x.f = x.f (the value it already has): nothing changes, and the slot stays fully usable
SetValueSame(i) == /\ Slots[i].val /\ present[i]
                   /\ Do("vsetsame", i, "", present, gen)
ClearValue(i) == /\ Slots[i].val /\ Slots[i].kind = "opt"
                 /\ Do("vclear", i, "", [present EXCEPT ![i] = FALSE], [gen EXCEPT ![i] = 0])
\* a node that already lives in a document (this one or another) must be refused
Attached(i, src) == WithAttached /\ Do("attached-" \o src, i, "ValueError", present, gen)

Next == \E i \in 1..N :
           \/ SetNode(i) \/ ClearNode(i) \/ SetSame(i) \/ SetValue(i) \/ SetValueEdge(i) \/ SetValueSame(i) \/ ClearValue(i)
           \/ \E src \in {"same", "other"} : Attached(i, src)

Init == \E c \in DOMAIN Classes : \E k \in 1..Len(Classes[c].inits) :
           /\ cls = c /\ init = k
           /\ present = Classes[c].inits[k]
           /\ gen = [i \in 1..Len(Classes[c].slots) |-> IF Classes[c].inits[k][i] THEN i ELSE 0]
           /\ nextGen = 100 /\ steps = 0
           /\ last = [slot |-> 0, exc |-> "", p0 |-> Classes[c].inits[k], g0 |-> <<>>]
           /\ hist = <<[op |-> "init", slot |-> 0, name |-> c, exc |-> "", present |-> Classes[c].inits[k],
                        gen |-> [i \in 1..Len(Classes[c].slots) |-> IF Classes[c].inits[k][i] THEN i ELSE 0]]>>

(* Design invariants *)
FrameOK == last.slot = 0 \/ \A j \in 1..N : j # last.slot => present[j] = last.p0[j] /\ gen[j] = last.g0[j]
RefusalOK == (last.slot # 0 /\ last.exc # "") => present = last.p0 /\ gen = last.g0
RequiredOK == \A i \in 1..N : Slots[i].kind = "req" => present[i]

Emit == (steps = Depth) => PrintT(<<"TRACE", ToJson([cls |-> cls, init |-> init, steps |-> hist])>>)
=============================================================================

------------------------------ MODULE CostSpec ------------------------------
(***************************************************************************)
(* The dependent value group of a posting's cost (property C09).           *)
(*                                                                         *)
(* Abstract layer: the obvious record of optionals                         *)
(*     rec = [per, total, cur, date, label, merge]      (0 = None)         *)
(* with the two documented rejections.                                     *)
(*                                                                         *)
(* Implementation-shaped layer: the concrete syntax form                   *)
(*     form = [brace \in {"U","T"}, comps = Seq(component)]                *)
(* and the three custom setters of models/cost_spec.py transcribed branch  *)
(* for branch on top of unordered_node_property (first component of the    *)
(* kind; prepend=True for compound/amount/number/currency, append for      *)
(* date/label/asterisk).                                                   *)
(*                                                                         *)
(* Every step records both layers; `mis` says whether Read(form') differs  *)
(* from the abstract record (a design-level deviation of the code's        *)
(* algorithm).  The verdict on the real code is always against the         *)
(* abstract layer.                                                         *)
(***************************************************************************)
EXTENDS Naturals, Sequences, FiniteSets, TLC, Json

CONSTANTS NumVals,   \* abstract number values, e.g. 1..2
          CurVals,   \* abstract currencies, e.g. 1..2
          Depth,
          Mains,     \* set of initial main-component shapes (strings, see MainComps)
          Extras     \* set of initial extra layouts: subsets of {"date","label","star"} as sequences

VARIABLES form, rec, steps, hist
vars == <<form, rec, steps, hist>>

C(k, a, b, c) == [k |-> k, a |-> a, b |-> b, c |-> c]

(* ---------------- implementation-shaped layer ---------------- *)
IdxOf(cs, K) == LET S == {i \in 1..Len(cs) : cs[i].k = K}
                IN IF S = {} THEN 0 ELSE CHOOSE i \in S : \A j \in S : i <= j
Has(f, K) == IdxOf(f.comps, K) # 0
Get(f, K) == f.comps[IdxOf(f.comps, K)]

RemoveAt(s, p) == SubSeq(s, 1, p - 1) \o SubSeq(s, p + 1, Len(s))

\* unordered_node_property.__set__ ; x = <<>> means None
USet(f, K, x, prepend) ==
    LET i == IdxOf(f.comps, K) IN
    IF i = 0 /\ x # <<>> THEN [f EXCEPT !.comps = IF prepend THEN <<x[1]>> \o f.comps ELSE Append(f.comps, x[1])]
    ELSE IF i # 0 /\ x = <<>> THEN [f EXCEPT !.comps = RemoveAt(f.comps, i)]
    ELSE IF i # 0 /\ x # <<>> THEN [f EXCEPT !.comps[i] = x[1]]
    ELSE f

Ok(f) == [f |-> f, err |-> ""]
Err(f) == [f |-> f, err |-> "ValueError"]
IntoUnit(f) == [f EXCEPT !.brace = "U"]
IntoTotal(f) == [f EXCEPT !.brace = "T"]

\* raw_number_per setter (v = 0 is None)
SetPerImpl(f, v) ==
    IF Has(f, "Comp") THEN Ok([f EXCEPT !.comps[IdxOf(f.comps, "Comp")].a = v])
    ELSE IF f.brace = "U" THEN
        IF Has(f, "Amt") THEN
            IF v # 0 THEN Ok([f EXCEPT !.comps[IdxOf(f.comps, "Amt")].a = v])
            ELSE Ok(USet(USet(f, "Cur", <<C("Cur", 0, 0, Get(f, "Amt").c)>>, TRUE), "Amt", <<>>, TRUE))
        ELSE IF Has(f, "Cur") /\ v # 0 THEN
            Ok(USet(USet(f, "Amt", <<C("Amt", v, 0, Get(f, "Cur").c)>>, TRUE), "Cur", <<>>, TRUE))
        ELSE Ok(USet(f, "Num", IF v = 0 THEN <<>> ELSE <<C("Num", v, 0, 0)>>, TRUE))
    ELSE IF v # 0 THEN        \* TotalCost
        IF Has(f, "Amt") THEN
            LET amt == Get(f, "Amt") IN
            Ok(USet(USet(IntoUnit(f), "Comp", <<C("Comp", v, amt.a, amt.c)>>, TRUE), "Amt", <<>>, TRUE))
        ELSE IF Has(f, "Cur") THEN
            Ok(USet(USet(IntoUnit(f), "Amt", <<C("Amt", v, 0, Get(f, "Cur").c)>>, TRUE), "Cur", <<>>, TRUE))
        ELSE IF Has(f, "Num") THEN Err(f)
        ELSE Ok(USet(IntoUnit(f), "Num", <<C("Num", v, 0, 0)>>, TRUE))
    ELSE Ok(f)

\* raw_number_total setter
SetTotalImpl(f, v) ==
    IF Has(f, "Comp") THEN Ok([f EXCEPT !.comps[IdxOf(f.comps, "Comp")].b = v])
    ELSE IF f.brace = "T" THEN
        IF Has(f, "Amt") THEN
            IF v # 0 THEN Ok([f EXCEPT !.comps[IdxOf(f.comps, "Amt")].a = v])
            ELSE Ok(USet(USet(f, "Cur", <<C("Cur", 0, 0, Get(f, "Amt").c)>>, TRUE), "Amt", <<>>, TRUE))
        ELSE IF Has(f, "Cur") /\ v # 0 THEN
            Ok(USet(USet(f, "Amt", <<C("Amt", v, 0, Get(f, "Cur").c)>>, TRUE), "Cur", <<>>, TRUE))
        ELSE Ok(USet(f, "Num", IF v = 0 THEN <<>> ELSE <<C("Num", v, 0, 0)>>, TRUE))
    ELSE IF v # 0 THEN        \* UnitCost
        IF Has(f, "Amt") THEN
            LET amt == Get(f, "Amt") IN
            Ok(USet(USet(f, "Comp", <<C("Comp", amt.a, v, amt.c)>>, TRUE), "Amt", <<>>, TRUE))
        ELSE IF Has(f, "Cur") THEN
            Ok(USet(USet(IntoTotal(f), "Amt", <<C("Amt", v, 0, Get(f, "Cur").c)>>, TRUE), "Cur", <<>>, TRUE))
        ELSE IF Has(f, "Num") THEN Err(f)
        ELSE Ok(USet(IntoTotal(f), "Num", <<C("Num", v, 0, 0)>>, TRUE))
    ELSE Ok(f)

\* raw_currency setter (c = 0 is None)
SetCurImpl(f, c) ==
    IF Has(f, "Comp") THEN
        LET cp == Get(f, "Comp") IN
        IF c # 0 THEN Ok([f EXCEPT !.comps[IdxOf(f.comps, "Comp")].c = c])
        ELSE IF cp.a # 0 /\ cp.b # 0 THEN Err(f)
        ELSE LET f1 == IF cp.a # 0 /\ cp.b = 0 THEN USet(IntoUnit(f), "Num", <<C("Num", cp.a, 0, 0)>>, TRUE)
                       ELSE IF cp.a = 0 /\ cp.b # 0 THEN USet(IntoTotal(f), "Num", <<C("Num", cp.b, 0, 0)>>, TRUE)
                       ELSE f
             IN Ok(USet(f1, "Comp", <<>>, TRUE))
    ELSE IF Has(f, "Amt") THEN
        IF c # 0 THEN Ok([f EXCEPT !.comps[IdxOf(f.comps, "Amt")].c = c])
        ELSE Ok(USet(USet(f, "Num", <<C("Num", Get(f, "Amt").a, 0, 0)>>, TRUE), "Amt", <<>>, TRUE))
    ELSE Ok(USet(f, "Cur", IF c = 0 THEN <<>> ELSE <<C("Cur", 0, 0, c)>>, TRUE))

SetDateImpl(f, v) == Ok(USet(f, "Date", IF v = 0 THEN <<>> ELSE <<C("Date", v, 0, 0)>>, FALSE))
SetLabelImpl(f, v) == Ok(USet(f, "Str", IF v = 0 THEN <<>> ELSE <<C("Str", v, 0, 0)>>, FALSE))
SetMergeImpl(f, v) == Ok(USet(f, "Star", IF v = 0 THEN <<>> ELSE <<C("Star", 0, 0, 0)>>, FALSE))

\* the getters
Read(f) ==
    [per   |-> IF Has(f, "Comp") THEN Get(f, "Comp").a
               ELSE IF f.brace # "U" THEN 0
               ELSE IF Has(f, "Amt") THEN Get(f, "Amt").a
               ELSE IF Has(f, "Num") THEN Get(f, "Num").a ELSE 0,
     total |-> IF Has(f, "Comp") THEN Get(f, "Comp").b
               ELSE IF f.brace # "T" THEN 0
               ELSE IF Has(f, "Amt") THEN Get(f, "Amt").a
               ELSE IF Has(f, "Num") THEN Get(f, "Num").a ELSE 0,
     cur   |-> IF Has(f, "Comp") THEN Get(f, "Comp").c
               ELSE IF Has(f, "Amt") THEN Get(f, "Amt").c
               ELSE IF Has(f, "Cur") THEN Get(f, "Cur").c ELSE 0,
     date  |-> IF Has(f, "Date") THEN Get(f, "Date").a ELSE 0,
     label |-> IF Has(f, "Str") THEN Get(f, "Str").a ELSE 0,
     merge |-> IF Has(f, "Star") THEN 1 ELSE 0]

(* ---------------- abstract layer ---------------- *)
AbsSet(r, fld, v) ==
    IF fld = "per" /\ v # 0 /\ r.total # 0 /\ r.cur = 0 THEN [r |-> r, err |-> "ValueError"]
    ELSE IF fld = "total" /\ v # 0 /\ r.per # 0 /\ r.cur = 0 THEN [r |-> r, err |-> "ValueError"]
    ELSE IF fld = "cur" /\ v = 0 /\ r.per # 0 /\ r.total # 0 THEN [r |-> r, err |-> "ValueError"]
    ELSE [r |-> [r EXCEPT ![fld] = v], err |-> ""]

ImplSet(f, fld, v) ==
    CASE fld = "per" -> SetPerImpl(f, v)
      [] fld = "total" -> SetTotalImpl(f, v)
      [] fld = "cur" -> SetCurImpl(f, v)
      [] fld = "date" -> SetDateImpl(f, v)
      [] fld = "label" -> SetLabelImpl(f, v)
      [] fld = "merge" -> SetMergeImpl(f, v)

Fields == {"per", "total", "cur", "date", "label", "merge"}
ValsOf(fld) == CASE fld \in {"per", "total"} -> NumVals \cup {0}
                 [] fld = "cur" -> CurVals \cup {0}
                 [] fld = "merge" -> {0, 1}
                 [] OTHER -> {0, 1, 2}

Shape(f) == [i \in 1..Len(f.comps) |-> f.comps[i].k]

Set(fld, v) ==
    LET a == AbsSet(rec, fld, v)  m == ImplSet(form, fld, v) IN
    /\ steps < Depth /\ steps' = steps + 1
    /\ rec' = a.r
    /\ form' = m.f
    /\ hist' = Append(hist, [op |-> "set", fld |-> fld, v |-> v, exc |-> a.err, rec |-> a.r,
                             implexc |-> m.err, brace |-> m.f.brace, comps |-> m.f.comps, implread |-> Read(m.f),
                             pre |-> <<form.brace, Shape(form)>>,
                             mis |-> (a.err # m.err \/ Read(m.f) # a.r)])

Next == \E fld \in Fields : \E v \in ValsOf(fld) : Set(fld, v)

(* ---------------- initial concrete forms ---------------- *)
MainComps(m) ==
    CASE m = "none"   -> <<>>
      [] m = "num"    -> <<C("Num", 1, 0, 0)>>
      [] m = "cur"    -> <<C("Cur", 0, 0, 1)>>
      [] m = "amt"    -> <<C("Amt", 1, 0, 1)>>
      [] m = "comp00" -> <<C("Comp", 0, 0, 1)>>
      [] m = "comp10" -> <<C("Comp", 1, 0, 1)>>
      [] m = "comp01" -> <<C("Comp", 0, 2, 1)>>
      [] m = "comp11" -> <<C("Comp", 1, 2, 1)>>
      [] m = "numcur" -> <<C("Num", 1, 0, 0), C("Cur", 0, 0, 1)>>
      [] m = "curnum" -> <<C("Cur", 0, 0, 1), C("Num", 1, 0, 0)>>

ExtraComp(x) == CASE x = "date" -> C("Date", 1, 0, 0) [] x = "label" -> C("Str", 1, 0, 0) [] x = "star" -> C("Star", 0, 0, 0)

Init ==
    \E b \in {"U", "T"} : \E m \in Mains : \E xs \in Extras : \E front \in BOOLEAN :
        LET ex == [i \in 1..Len(xs) |-> ExtraComp(xs[i])]
            f  == [brace |-> b, comps |-> IF front THEN ex \o MainComps(m) ELSE MainComps(m) \o ex]
        IN /\ (front => Len(xs) > 0 /\ m # "none")
           /\ form = f /\ rec = Read(f) /\ steps = 0
           /\ hist = <<[op |-> "init", fld |-> "", v |-> 0, exc |-> "", rec |-> Read(f), implexc |-> "",
                        brace |-> b, comps |-> f.comps, implread |-> Read(f), pre |-> <<b, Shape(f)>>, mis |-> FALSE]>>

Spec == Init /\ [][Next]_vars

(* Design-level statement: wherever the transcription of the code's algorithm agrees with  *)
(* the record model it keeps agreeing; the deviating edges are listed, not hidden.         *)
TypeOK == rec.per \in NumVals \cup {0} /\ rec.total \in NumVals \cup {0} /\ rec.cur \in CurVals \cup {0}
\* documented rejection states are unreachable in the abstract layer
AbsLegal == ~(rec.per # 0 /\ rec.total # 0 /\ rec.cur = 0)

Emit == (steps = Depth) => PrintT(<<"TRACE", ToJson(hist)>>)
=============================================================================

-------------------------- MODULE CommentOwnership --------------------------
(***************************************************************************)
(* Ownership of block comments (C14) and invisibility of attribution calls *)
(* (C04), as a transition system validated against recorded executions.    *)
(*                                                                         *)
(* A trace is one document and a sequence of attribution calls on it.      *)
(* After every call the recorder logs, for every block comment token c:    *)
(*   own[c]     the SET of places that own it, each <<kind, owner>> with   *)
(*              kind in {"leading","trailing","inner"}                     *)
(*   claimed[c] its claimed flag                                           *)
(* plus vis, a small integer naming the list of (token, text) pairs with   *)
(* visible text, and txt naming the printed text.                          *)
(* Events:  op in {"init","claim_leading","unclaim_leading",               *)
(*   "claim_trailing","unclaim_trailing","claim_inner","unclaim_inner",    *)
(*   "auto", "copy" (a deep copy observed, see Clause), "resume" (the       *)
(*   original observed again after a copy)}, who = the model / repeated field the call went to,           *)
(*   root = TRUE when `who` is the document root, exc = exception or "".   *)
(***************************************************************************)
EXTENDS Naturals, Sequences, FiniteSets, TLC, Json, IOUtils

Traces == JsonDeserialize(IOEnv.TRACE_FILE)

VARIABLES tid, l, verdict, why, own, vis, txt, snap
vars == <<tid, l, verdict, why, own, vis, txt, snap>>

Ev == Traces[tid].events[l]
Done == l > Len(Traces[tid].events)
NC == Traces[tid].ncomments

SetOf(s) == {s[i] : i \in 1..Len(s)}
Owners(ev, c) == SetOf(ev.own[c])

\* state predicates on a logged observation
AtMostOneOwner(ev) == \A c \in 1..NC : Cardinality(Owners(ev, c)) <= 1
ClaimedIffOwned(ev) == \A c \in 1..NC : ev.claimed[c] = (Cardinality(Owners(ev, c)) = 1)
AllOwned(ev) == \A c \in 1..NC : Cardinality(Owners(ev, c)) = 1

Changed(ev) == {c \in 1..NC : Owners(ev, c) # own[c]}
Kind(op) == CASE op \in {"claim_leading", "unclaim_leading"} -> "leading"
              [] op \in {"claim_trailing", "unclaim_trailing"} -> "trailing"
              [] OTHER -> "inner"

\* which clause of the transition rules an event violates ("ok" if none)
Clause(ev) ==
    IF ev.vis # vis THEN "visible-tokens-changed"                       \* C04
    ELSE IF ev.txt # txt THEN "text-changed"                            \* C04
    ELSE IF ~AtMostOneOwner(ev) THEN "two-owners"
    ELSE IF ~ClaimedIffOwned(ev) THEN "claimed-flag"
    ELSE IF ev.op = "copy" THEN
        \* copy.deepcopy taken in this state: own / claimed were read from the COPY (comments by ordinal, owners
        \* by parallel walk), vis / txt from the original afterwards.  The copy carries the same attribution.
        IF ev.exc # "" THEN "copy-has-another-structure"
        ELSE IF Changed(ev) # {} THEN "copy-attribution-differs" ELSE "ok"
    ELSE IF ev.exc # "" THEN (IF Changed(ev) # {} THEN "refused-call-changed-ownership" ELSE "ok")
    ELSE IF ev.op \in {"claim_leading", "claim_trailing"} THEN
        \* at most one comment changes, from unowned to <<kind, who>>
        IF Cardinality(Changed(ev)) > 1 THEN "claim-changed-several"
        ELSE IF \E c \in Changed(ev) : own[c] # {} \/ Owners(ev, c) # {<<Kind(ev.op), ev.who>>} THEN "claim-wrong-owner"
        ELSE "ok"
    ELSE IF ev.op \in {"unclaim_leading", "unclaim_trailing"} THEN
        IF \E c \in Changed(ev) : own[c] # {<<Kind(ev.op), ev.who>>} \/ Owners(ev, c) # {} THEN "unclaim-wrong"
        ELSE IF Cardinality(Changed(ev)) > 1 THEN "unclaim-changed-several"
        ELSE "ok"
    ELSE IF ev.op = "claim_inner" THEN
        IF \E c \in Changed(ev) : own[c] # {} \/ Owners(ev, c) # {<<"inner", ev.who>>} THEN "claim-inner-wrong" ELSE "ok"
    ELSE IF ev.op = "unclaim_inner" THEN
        IF \E c \in Changed(ev) : own[c] # {<<"inner", ev.who>>} \/ Owners(ev, c) # {} THEN "unclaim-inner-wrong" ELSE "ok"
    ELSE IF ev.op = "auto" THEN
        \* automatic attribution only gives owners to unowned comments, and leaves none unowned below the root
        IF \E c \in Changed(ev) : own[c] # {} THEN "auto-reassigned-owned-comment"
        ELSE IF ev.root /\ ~AllOwned(ev) THEN "auto-left-unowned"
        ELSE IF ev.second /\ Changed(ev) # {} THEN "auto-not-idempotent"
        ELSE "ok"
    ELSE IF ev.op = "restore" THEN
        \* unclaim followed by the same claim: the attribution is the one before the pair
        IF \E c \in 1..NC : Owners(ev, c) # snap[c] THEN "unclaim-claim-does-not-restore" ELSE "ok"
    ELSE "ok"

Step ==
    /\ verdict = "run" /\ ~Done
    /\ LET ev == Ev
           c == IF ev.op = "init"
                THEN (IF ~AtMostOneOwner(ev) THEN "two-owners"
                      ELSE IF ~ClaimedIffOwned(ev) THEN "claimed-flag"
                      ELSE IF ev.default /\ ~AllOwned(ev) THEN "default-parse-left-unowned"
                      ELSE "ok")
                ELSE Clause(ev)
       IN /\ verdict' = IF c = "ok" THEN "run" ELSE "rejected"
          /\ why' = IF c = "ok" THEN why ELSE c
          /\ own' = [k \in 1..NC |-> Owners(ev, k)]
          /\ snap' = IF ev.op \in {"unclaim_leading", "unclaim_trailing", "unclaim_inner"} /\ ev.snap THEN own ELSE snap
          /\ vis' = ev.vis /\ txt' = ev.txt
          /\ l' = l + 1
          /\ UNCHANGED tid

Finish == /\ verdict = "run" /\ Done /\ verdict' = "accepted"
          /\ UNCHANGED <<tid, l, why, own, vis, txt, snap>>

TInit == /\ tid \in 1..Len(Traces)
         /\ l = 1 /\ verdict = "run" /\ why = ""
         /\ own = [k \in 1..Traces[tid].ncomments |-> {}]
         /\ snap = [k \in 1..Traces[tid].ncomments |-> {}]
         /\ vis = Traces[tid].events[1].vis /\ txt = Traces[tid].events[1].txt

TNext == Step \/ Finish
Report == (verdict # "run") => PrintT(<<"VERDICT", tid, verdict, l - 1, why>>)
=============================================================================

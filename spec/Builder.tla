------------------------------- MODULE Builder -------------------------------
(***************************************************************************)
(* parser.ModelBuilder's token accounting (C01): the lexer produced the    *)
(* tokens 1..n (has[i] = the token carries text); while the parse tree is  *)
(* walked the builder moves a cursor over them and materialises model      *)
(* tokens.  Recorded events:                                               *)
(*   gap(c)     _fix_gap(c): every text-carrying token in cursor..c-1 is   *)
(*              emitted, cursor := c                                       *)
(*   tok(i)     _build_token for lexer token i: gap(i), token i emitted,   *)
(*              cursor := i + 1                                            *)
(*   ph         a zero-width placeholder is emitted                        *)
(*   done       build() finished: the store holds exactly the emitted row  *)
(* Rules: the cursor never moves backwards; every text-carrying lexer      *)
(* token is emitted exactly once, in order; zero-width lexer marks are     *)
(* emitted only as model tokens (tok), never by a gap.                     *)
(***************************************************************************)
EXTENDS Naturals, Sequences, FiniteSets, TLC, Json, IOUtils

Traces == JsonDeserialize(IOEnv.TRACE_FILE)
VARIABLES tid, l, verdict, why, cursor, emitted
vars == <<tid, l, verdict, why, cursor, emitted>>
T == Traces[tid]
Ev == T.events[l]
Done == l > Len(T.events)

\* the text-carrying tokens of cursor..c-1, in order
RECURSIVE GapToks(_, _, _)
GapToks(has, a, b) == IF a >= b THEN <<>> ELSE (IF has[a] THEN <<a>> ELSE <<>>) \o GapToks(has, a + 1, b)

Step == /\ verdict = "run" /\ ~Done
        /\ LET ev == Ev IN
           IF ev.op = "gap" THEN
              IF ev.c < cursor THEN verdict' = "rejected" /\ why' = "cursor-moved-backwards" /\ UNCHANGED <<cursor, emitted>>
              ELSE verdict' = "run" /\ why' = why /\ cursor' = ev.c /\ emitted' = emitted \o GapToks(T.has, cursor, ev.c)
           ELSE IF ev.op = "tok" THEN
              IF ev.i < cursor THEN verdict' = "rejected" /\ why' = "token-built-behind-the-cursor" /\ UNCHANGED <<cursor, emitted>>
              ELSE verdict' = "run" /\ why' = why /\ cursor' = ev.i + 1
                   /\ emitted' = emitted \o GapToks(T.has, cursor, ev.i) \o <<ev.i>>
           ELSE IF ev.op = "ph" THEN verdict' = "run" /\ why' = why /\ emitted' = Append(emitted, 0) /\ UNCHANGED cursor
           ELSE \* done: what the store holds (lexer token numbers, 0 for placeholders) and what is left
              LET textual == SelectSeq(emitted, LAMBDA x : x # 0 /\ T.has[x])
                  want == GapToks(T.has, 1, Len(T.has) + 1)
              IN IF ev.row # emitted THEN verdict' = "rejected" /\ why' = "store-is-not-the-emitted-row" /\ UNCHANGED <<cursor, emitted>>
                 ELSE IF textual # want THEN verdict' = "rejected" /\ why' = "text-token-lost-duplicated-or-reordered" /\ UNCHANGED <<cursor, emitted>>
                 ELSE IF cursor # Len(T.has) + 1 THEN verdict' = "rejected" /\ why' = "cursor-not-at-end" /\ UNCHANGED <<cursor, emitted>>
                 ELSE verdict' = "run" /\ why' = why /\ UNCHANGED <<cursor, emitted>>
        /\ l' = l + 1 /\ UNCHANGED tid
Finish == verdict = "run" /\ Done /\ verdict' = "accepted" /\ UNCHANGED <<tid, l, why, cursor, emitted>>
TInit == tid \in 1..Len(Traces) /\ l = 1 /\ verdict = "run" /\ why = "" /\ cursor = 1 /\ emitted = <<>>
TNext == Step \/ Finish
Report == (verdict # "run") => PrintT(<<"VERDICT", tid, verdict, l - 1, why>>)
=============================================================================

------------------------------ MODULE RepImpl ------------------------------
(***************************************************************************)
(* Implementation-shaped specification of one repeated field:              *)
(*   models/internal/properties.py   RepeatedNodeWrapper                   *)
(*       _prev_last, _insert_tokens, _del_tokens, __setitem__ (int, slice, *)
(*       extended slice), insert, append, extend, pop, clear, drop_many,   *)
(*       _notify / _notify_splice                                          *)
(*   models/internal/value_properties.py                                   *)
(*       _RepeatedValueWrapperUpdateHandler.handle / handle_splice         *)
(*       (the bisect arithmetic on the cached _raw_indexes of every view)  *)
(* transcribed statement by statement (with the repairs of this round),    *)
(* and checked by TLC against the abstract RepList meaning:                *)
(*   DocOK    the token row is the canonical rendering of the item list    *)
(*            (placeholder, then separator-before-first / separator, item) *)
(*   ViewsOK  every registered view's index table equals the type filter   *)
(*            recomputed from the item list                                *)
(* for every call with every index / slice / batch within the bounds, from *)
(* every small list, with every subset of views registered.                *)
(* Items are one token each; all indexes are 0-based as in the code.       *)
(***************************************************************************)
EXTENDS Naturals, Integers, Sequences, FiniteSets, TLC, Json, PySeq

CONSTANTS Types, ViewTypes,   \* ViewTypes: [view name -> SUBSET Types]
          InitLens, MaxLen, MaxBatch, IdxDom, StepDom, Depth,
          Fixes     \* repaired deviations: subset of {"NegIndex", "RevSlice", "BatchAt0"} (all = the tree as it is now)

VARIABLES items,    \* Seq of [id, ty]                      -- Repeated.items
          doc,      \* Seq of tokens [k, id]                -- the store, restricted to this field
          rawIdx,   \* [registered view -> Seq(Nat)]        -- _raw_indexes
          nextId, steps, err,
          hist      \* the calls made so far with the state after each (replayed on the real wrappers; not part of the design state)
vars == <<items, doc, rawIdx, nextId, steps, err, hist>>

PH == [k |-> "ph", id |-> 0]
SEP == [k |-> "sep", id |-> 0]
SEPB == [k |-> "sepb", id |-> 0]
Tok(x) == [k |-> "item", id |-> x.id]

PosOfTok(d, t) == CHOOSE i \in 1..Len(d) : d[i] = t       \* item tokens and PH are unique

\* canonical rendering
RECURSIVE Render(_, _)
Render(its, k) == IF k > Len(its) THEN <<>> ELSE <<(IF k = 1 THEN SEPB ELSE SEP), Tok(its[k])>> \o Render(its, k + 1)
Doc(its) == <<PH>> \o Render(its, 1)

Filter(its, T) == LET RECURSIVE F(_) F(k) == IF k > Len(its) THEN <<>>
                                            ELSE (IF its[k].ty \in T THEN <<k - 1>> ELSE <<>>) \o F(k + 1)
                  IN F(1)

(* ---------------- token level ---------------- *)
\* position (1-based in doc) after which `_insert_tokens` inserts: _prev_last(index)
PrevLastPos(its, d, index) == IF index > 0 THEN PosOfTok(d, Tok(its[index])) ELSE PosOfTok(d, PH)

\* _insert_tokens(index, values, length, separators_before_last); sbl = doc position of the token before
\* the first item as captured by the caller (0 = not given)
InsertTokens(its, d, index, values, length, sbl) ==
    LET n == Len(values)
        toks == LET RECURSIVE B(_) B(i) ==
                      IF i > n THEN <<>>
                      ELSE (IF index > 0 \/ (i > 1 /\ (length = 0 \/ "BatchAt0" \notin Fixes)) THEN <<SEP, Tok(values[i])>>
                            ELSE IF length > 0 THEN <<Tok(values[i]), SEP>>
                            ELSE <<SEPB, Tok(values[i])>>) \o B(i + 1)
                IN B(1)
        \* ref: _prev_last(index) unless a value was written in value-then-separator form
        ref == IF n > 0 /\ index = 0 /\ length > 0
               THEN (IF sbl # 0 THEN sbl ELSE PosOfTok(d, Tok(its[1])) - 1)
               ELSE PrevLastPos(its, d, index)
    IN SubSeq(d, 1, ref) \o toks \o SubSeq(d, ref + 1, Len(d))

\* _del_tokens(start, stop)
DelTokens(its, d, start, stop) ==
    IF stop <= start THEN d
    ELSE IF start = 0 /\ stop < Len(its)
         THEN LET a == PosOfTok(d, Tok(its[start + 1]))          \* first token of items[start]
                  b == PosOfTok(d, Tok(its[stop + 1])) - 1       \* token before items[stop]
              IN SubSeq(d, 1, a - 1) \o SubSeq(d, b + 1, Len(d))
         ELSE LET a == PrevLastPos(its, d, start) + 1
                  b == PosOfTok(d, Tok(its[stop]))               \* items[stop - 1].last_token
              IN SubSeq(d, 1, a - 1) \o SubSeq(d, b + 1, Len(d))

(* ---------------- view index tables ---------------- *)
\* bisect.bisect_left
BisectLeft(s, x) == Cardinality({i \in 1..Len(s) : s[i] < x})
\* handle_splice(l, r, values)
HandleSplice(idx, T, l, r, values) ==
    LET filtered == LET RECURSIVE F(_) F(i) == IF i > Len(values) THEN <<>>
                                             ELSE (IF values[i].ty \in T THEN <<l + i - 1>> ELSE <<>>) \o F(i + 1)
                    IN F(1)
        ll == BisectLeft(idx, l)
        rr == BisectLeft(idx, r)
        diff == Len(values) - r + l
        mid == SubSeq(idx, 1, ll) \o filtered \o SubSeq(idx, (IF rr < ll THEN ll ELSE rr) + 1, Len(idx))
    IN [i \in 1..Len(mid) |-> IF diff # 0 /\ i > ll + Len(filtered) THEN mid[i] + diff ELSE mid[i]]

NotifySplice(ri, l, r, values) == [v \in DOMAIN ri |-> HandleSplice(ri[v], ViewTypes[v], l, r, values)]
Notify(ri, its) == [v \in DOMAIN ri |-> Filter(its, ViewTypes[v])]

(* ---------------- the public calls ---------------- *)
NewItems(b) == [j \in 1..Len(b) |-> [id |-> nextId + j - 1, ty |-> b[j]]]
Batches(k) == [1..k -> Types]

Commit(its2, d2, ri2, nnew) ==
    /\ items' = its2 /\ doc' = d2 /\ rawIdx' = ri2 /\ nextId' = nextId + nnew
    /\ steps' = steps + 1 /\ UNCHANGED err

\* insert(index, value)
OpInsert(i, b) ==
    LET n == Len(items)  vs == NewItems(b)
        i1 == IF i < 0 THEN (IF i + n < 0 THEN 0 ELSE i + n) ELSE i
        index == IF i1 > n THEN n ELSE i1
    IN Commit(InsertAt(items, index + 1, vs), InsertTokens(items, doc, index, vs, n, 0),
              NotifySplice(rawIdx, index, index, vs), 1)

\* append / extend
OpExtend(b) ==
    LET n == Len(items)  vs == NewItems(b) IN
    Commit(items \o vs, InsertTokens(items, doc, n, vs, n, 0), NotifySplice(rawIdx, n, n, vs), Len(b))

\* w[i] = value
OpSetItem(i, b) ==
    LET n == Len(items)  vs == NewItems(b) IN
    /\ ValidIndex(i, n)
    /\ LET index == NormIndex(i, n)
           p == PosOfTok(doc, Tok(items[index + 1]))
       IN Commit([items EXCEPT ![index + 1] = vs[1]], [doc EXCEPT ![p] = Tok(vs[1])],
                 NotifySplice(rawIdx, (IF "NegIndex" \in Fixes THEN index ELSE i), (IF "NegIndex" \in Fixes THEN index ELSE i) + 1, vs), 1)

\* w[slice] = values   and   del w[slice]
OpSetSlice(sl, b) ==
    LET n == Len(items)  vs == NewItems(b)
        start0 == SliceStart(sl, n)  stop0 == SliceStop(sl, n)  step == SliceStep(sl)
        r == RangeFrom(start0, stop0, step)
        sbl == IF n > 0 THEN PosOfTok(doc, Tok(items[1])) - 1 ELSE 0
    IN IF step = 1 THEN
          LET start == start0  stop == IF stop0 < start0 THEN start0 ELSE stop0     \* empty reversed slice = insertion point
              d1 == DelTokens(items, doc, start, stop)
              its1 == SubSeq(items, 1, start) \o SubSeq(items, stop + 1, n)
              \* the token before the first item, re-located after the deletion (the code keeps the token object)
              sbl1 == IF n > 0 THEN PosOfTok(d1, doc[sbl]) ELSE 0
              d2 == InsertTokens(its1, d1, start, vs, Len(its1), sbl1)
          IN Commit(SubSeq(items, 1, start) \o vs \o SubSeq(items, stop + 1, n), d2,
                    NotifySplice(rawIdx, start, (IF "RevSlice" \in Fixes THEN stop ELSE stop0), vs), Len(b))
       ELSE /\ Len(r) = Len(vs)
            /\ LET RECURSIVE Loop(_, _, _)
                   Loop(its, d, j) ==
                       IF j > Len(r) THEN <<its, d>>
                       ELSE LET i == r[j]
                                d1 == DelTokens(its, d, i, i + 1)
                                its1 == SubSeq(its, 1, i) \o SubSeq(its, i + 2, Len(its))
                                keep == IF Len(its) > 0 THEN d[PosOfTok(d, Tok(its[1])) - 1] ELSE PH
                                sb == IF i = 0 /\ Len(its1) > 0 THEN PosOfTok(d1, Tok(its1[1])) - 1 ELSE 0
                                d2 == InsertTokens(its1, d1, i, <<vs[j]>>, Len(its) - 1, sb)
                            IN Loop(SubSeq(its, 1, i) \o <<vs[j]>> \o SubSeq(its, i + 2, Len(its)), d2, j + 1)
                   res == Loop(items, doc, 1)
               IN Commit(res[1], res[2], Notify(rawIdx, res[1]), Len(b))

\* pop(index)
OpPop(i) ==
    LET n == Len(items) IN
    /\ ValidIndex(i, n)
    /\ LET index == NormIndex(i, n)
           its2 == SubSeq(items, 1, index) \o SubSeq(items, index + 2, n)
       IN Commit(its2, DelTokens(items, doc, index, index + 1), NotifySplice(rawIdx, index, index + 1, <<>>), 0)

\* clear()
OpClear == Commit(<<>>, DelTokens(items, doc, 0, Len(items)), Notify(rawIdx, <<>>), 0)

\* drop_many(indexes): what filtered views use for del / clear / discard
OpDropMany(S) ==
    LET n == Len(items)
        \* consecutive runs, processed from the highest index down, each run deleted in one call
        RECURSIVE Drop(_, _, _)
        Drop(its, d, k) ==      \* k: highest index not yet considered (0-based), its: ORIGINAL list positions still valid below k
            IF k < 0 THEN d
            ELSE IF k \notin S THEN Drop(its, d, k - 1)
            ELSE LET lo == CHOOSE x \in 0..k : (\A y \in x..k : y \in S) /\ (x = 0 \/ x - 1 \notin S)
                 IN Drop(its, DelTokens(its, d, lo, k + 1), lo - 1)
        \* deleting from the back keeps lower positions valid, but Len(its) in _del_tokens is the CURRENT list:
        \* the code does not update items until the end, so `its` stays the original list throughout
        d2 == Drop(items, doc, n - 1)
        its2 == LET RECURSIVE K(_) K(k) == IF k > n THEN <<>> ELSE (IF k - 1 \in S THEN <<>> ELSE <<items[k]>>) \o K(k + 1) IN K(1)
    IN Commit(its2, d2, Notify(rawIdx, its2), 0)

\* a view is read for the first time: its index table is computed from scratch and its handler registered
Register(v) ==
    /\ v \notin DOMAIN rawIdx
    /\ rawIdx' = [w \in DOMAIN rawIdx \cup {v} |-> IF w = v THEN Filter(items, ViewTypes[v]) ELSE rawIdx[w]]
    /\ UNCHANGED <<items, doc, nextId, steps, err>>

\* one history record per call: what was called, and the item list / index tables / token kinds afterwards
Log(op, args) ==
    hist' = Append(hist, [op |-> op, args |-> args,
                          items |-> [k \in 1..Len(items') |-> <<items'[k].id, items'[k].ty>>],
                          idx |-> [v \in DOMAIN rawIdx' |-> rawIdx'[v]],
                          reg |-> [v \in DOMAIN ViewTypes |-> v \in DOMAIN rawIdx'],
                          doc |-> [k \in 1..Len(doc') |-> doc'[k].k]])

Slices == {<<a, b, c>> : a \in IdxDom \cup {NoneV}, b \in IdxDom \cup {NoneV}, c \in StepDom}

Next ==
    \/ \E v \in DOMAIN ViewTypes : Register(v) /\ Log("register", [v |-> v])
    \/ /\ steps < Depth
       /\ \/ \E i \in IdxDom : \E b \in Batches(1) : Len(items) < MaxLen /\ OpInsert(i, b) /\ Log("insert", [i |-> i, b |-> b])
          \/ \E k \in 0..MaxBatch : \E b \in Batches(k) : Len(items) + k <= MaxLen /\ OpExtend(b) /\ Log("extend", [b |-> b])
          \/ \E i \in IdxDom : \E b \in Batches(1) : OpSetItem(i, b) /\ Log("setitem", [i |-> i, b |-> b])
          \/ \E sl \in Slices : \E k \in 0..MaxBatch : \E b \in Batches(k) :
                Len(items) + k <= MaxLen /\ OpSetSlice(sl, b) /\ Log("setslice", [sl |-> sl, b |-> b])
          \/ \E i \in IdxDom : OpPop(i) /\ Log("pop", [i |-> i])
          \/ OpClear /\ Log("clear", [x |-> 0])
          \/ \E S \in SUBSET (0..Len(items) - 1) : OpDropMany(S) /\ Log("dropmany", [s |-> S])

Init == \E n \in InitLens : \E tys \in [1..n -> Types] :
           /\ items = [k \in 1..n |-> [id |-> k, ty |-> tys[k]]]
           /\ doc = Doc([k \in 1..n |-> [id |-> k, ty |-> tys[k]]])
           /\ rawIdx = <<>> /\ nextId = n + 1 /\ steps = 0 /\ err = ""
           /\ hist = <<[op |-> "init", args |-> [x |-> 0], items |-> [k \in 1..n |-> <<k, tys[k]>>],
                        idx |-> <<>>, reg |-> [v \in DOMAIN ViewTypes |-> FALSE],
                        doc |-> [k \in 1..(2 * n + 1) |-> Doc([j \in 1..n |-> [id |-> j, ty |-> tys[j]]])[k].k]]>>

DocOK == doc = Doc(items)
ViewsOK == \A v \in DOMAIN rawIdx : rawIdx[v] = Filter(items, ViewTypes[v])
\* design check: the history is not part of the state (VIEW), behaviours for the replay: Emit at the leaves
DesignView == <<items, doc, rawIdx, nextId, steps, err>>
\* replay runs: views register in one canonical order, and not after the last call (a table computed from scratch
\* after the last call has no later call to be wrong about)
RegCanon ==
    LET regs == SelectSeq(hist, LAMBDA h : h.op = "register")
        Rank(v) == CASE v = "va" -> 1 [] v = "vb" -> 2 [] OTHER -> 3
    IN /\ \A i, j \in 1..Len(regs) : i < j => Rank(regs[i].args.v) < Rank(regs[j].args.v)
       /\ ~(steps = Depth /\ Depth > 0 /\ hist[Len(hist)].op = "register")
Emit == (steps = Depth) => PrintT(<<"TRACE", ToJson(hist)>>)
NoDup == \A i, j \in 1..Len(items) : items[i].id = items[j].id => i = j
=============================================================================

----------------------------- MODULE Construct -----------------------------
(***************************************************************************)
(* The argument space of the from_value constructors (C15) as a one-step   *)
(* specification: every reachable state IS one argument combination.       *)
(* Schemas (class -> parameters with a mode and a number of value          *)
(* selectors) are extracted reflectively from inspect.signature by the     *)
(* harness.  Two families of combinations are enumerated per class:        *)
(*   "subsets"  every subset of the optional / list parameters present     *)
(*              (first value selector, lists of two)                       *)
(*   "vary"     everything present, one parameter ranging over all its     *)
(*              selectors (lists: lengths 0..3)                            *)
(* The constructed model must print to text the parser accepts for the     *)
(* class, parse back to the same content, read back its arguments, be a    *)
(* well-formed self-contained tree and equal its deep copy.                *)
(***************************************************************************)
EXTENDS Naturals, Sequences, FiniteSets, TLC, Json

CONSTANTS Schemas,    \* [class |-> Seq([name, mode \in {"req","opt","list"}, nsel])]
          Families    \* subset of {"subsets", "vary", "pairs"}

VARIABLES cls, family, sel
vars == <<cls, family, sel>>

Params(c) == Schemas[c]
\* a selector vector: 0 = absent (opt) / empty (list); k >= 1 = k-th value (req, opt) / k-th list shape
Legal(c, v) == \A i \in 1..Len(Params(c)) :
                  /\ v[i] \in 0..Params(c)[i].nsel
                  /\ (Params(c)[i].mode = "req" => v[i] >= 1)

Subsets(c) == {v \in [1..Len(Params(c)) -> 0..1] : Legal(c, v)}
VaryRaw(c) == {[j \in 1..Len(Params(c)) |-> IF j = i THEN s ELSE 1] : i \in 1..Len(Params(c)), s \in 0..9}
Vary(c) == {v \in VaryRaw(c) : Legal(c, v)}

\* "pairs": two parameters range over all their selectors together, the others present
PairsRaw(c) == {[j \in 1..Len(Params(c)) |-> IF j = i THEN s ELSE IF j = i2 THEN s2 ELSE 1] :
                  i \in 1..Len(Params(c)), i2 \in 1..Len(Params(c)), s \in 0..9, s2 \in 0..9}
Pairs(c) == {v \in PairsRaw(c) : Legal(c, v)}

Init == \E c \in DOMAIN Schemas : \E f \in Families :
           /\ cls = c /\ family = f
           /\ sel \in (IF f = "subsets" THEN Subsets(c) ELSE IF f = "vary" THEN Vary(c) ELSE Pairs(c))
Next == UNCHANGED vars

TypeOK == Legal(cls, sel)
Emit == PrintT(<<"TRACE", ToJson([cls |-> cls, family |-> family, sel |-> sel])>>)
=============================================================================

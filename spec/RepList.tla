------------------------------ MODULE RepList ------------------------------
(***************************************************************************)
(* Abstract specification of one repeated field of a model and all the     *)
(* views onto it (properties C10, C03, C06, C05, C19).                     *)
(*                                                                         *)
(* State: the raw list `raw` of item identities; every item has a type     *)
(* (which views it belongs to) and a value (what string views / mapping    *)
(* keys show).  A view is a type filter plus a kind:                       *)
(*   "raw"    the unfiltered MutableSequence of nodes                      *)
(*   "node"   type-filtered MutableSequence of nodes                       *)
(*   "str"    type-filtered MutableSequence of converted values            *)
(*   "map"    "node" + first-match mapping key -> node   (raw_meta)        *)
(*   "mapval" "node" + first-match mapping key -> value  (meta)            *)
(* Every action is a call through ONE view; its meaning is Python list /   *)
(* ordered-dict semantics on THAT view (module PySeq) and the claim is     *)
(* checked by TLC (invariant ClaimOK): the view after the call equals the  *)
(* Python result, every other item keeps identity and relative order.      *)
(* The document text is the canonical rendering Doc(raw).                  *)
(***************************************************************************)
EXTENDS Naturals, Integers, Sequences, FiniteSets, TLC, Json, PySeq

CONSTANTS
    Types,        \* set of item type names
    InitTypeSet,  \* types that may occur in the initial (parsed) list
    Views,        \* function: view name -> [types |-> SUBSET Types, kind |-> STRING]
    InPlace,      \* types whose value a string view updates in place (the others are models: always replaced)
    Vals,         \* set of abstract values / keys (small naturals)
    InitLens,     \* initial list lengths
    MaxLen,       \* bound on Len(raw)
    MaxBatch,     \* batch sizes 0..MaxBatch
    IdxDom,       \* integer index spellings, e.g. -4..4
    StepDom,      \* slice step spellings, e.g. {NoneV, 1, 2, -1, -2}
    SliceMode,    \* "all": every spelling; "class": one spelling per denoted range
    Ops,          \* set of operation names to generate
    Depth,
    Attached      \* TRUE: also generate refused calls with attached donors (C19)

VARIABLES raw, ty, val, nextId, steps, last, hist
vars == <<raw, ty, val, nextId, steps, last, hist>>

ViewNames == DOMAIN Views
InView(id, v) == ty[id] \in Views[v].types
Filter(s, v) == SelectSeq(s, LAMBDA id : InView(id, v))
\* 1-based raw positions of the view's items
VPos(s, v) == LET RECURSIVE P(_) P(k) == IF k > Len(s) THEN <<>>
                                        ELSE (IF InView(s[k], v) THEN <<k>> ELSE <<>>) \o P(k + 1)
              IN P(1)

SeqSet(s) == {s[i] : i \in 1..Len(s)}

\* canonical rendering: placeholder, then (separator, item)*; the first separator is SEPB
Doc(s) == <<"PH">> \o
          (LET RECURSIVE R(_) R(k) == IF k > Len(s) THEN <<>>
                                     ELSE <<(IF k = 1 THEN "SEPB" ELSE "SEP"), s[k]>> \o R(k + 1)
           IN R(1))

---------------------------------------------------------------------------
\* new items: ids nextId, nextId+1, ... with the given types / values
NewIds(k) == [j \in 1..k |-> nextId + j - 1]
WithNew(f, ids, xs) == [id \in DOMAIN f \cup SeqSet(ids) |->
                          IF id \in SeqSet(ids) THEN xs[CHOOSE j \in 1..Len(ids) : ids[j] = id] ELSE f[id]]

\* batches of k new items admissible for view v: types within the view, values alternate
Batches(v, k) ==
    {b \in [1..k -> (Views[v].types \X Vals)] :
        \A j \in 2..k : b[j][2] = (IF b[j - 1][2] + 1 \in Vals THEN b[j - 1][2] + 1
                                  ELSE CHOOSE m \in Vals : \A m2 \in Vals : m <= m2)}

Slices ==
    LET B == IdxDom \cup {NoneV} IN
    {<<a, b, c>> : a \in B, b \in B, c \in StepDom}

\* one spelling per denoted range (what range_from_index hands to the code)
SlicesFor(n) ==
    IF SliceMode = "all" THEN Slices
    ELSE LET key(sl) == <<SliceStart(sl, n), SliceStop(sl, n), SliceStep(sl)>>
         IN {sl \in Slices : sl = CHOOSE s2 \in Slices : key(s2) = key(sl)}

---------------------------------------------------------------------------
(* The result of a call: [exc, raw, val, ty, claim]  where claim is the    *)
(* Python-semantics result for the view the call went through.             *)
Res(exc, r, vl, t, claim) == [exc |-> exc, raw |-> r, val |-> vl, ty |-> t, claim |-> claim]
Refuse(exc, v) == Res(exc, raw, val, ty, Filter(raw, v))

\* remove the raw positions in set P
DropPositions(s, P) == LET RECURSIVE K(_) K(k) == IF k > Len(s) THEN <<>>
                                                ELSE (IF k \in P THEN <<>> ELSE <<s[k]>>) \o K(k + 1)
                       IN K(1)

OpAppend(v, b) ==
    LET ids == NewIds(Len(b)) L == Filter(raw, v) IN
    Res("", raw \o ids, WithNew(val, ids, [j \in 1..Len(b) |-> b[j][2]]),
        WithNew(ty, ids, [j \in 1..Len(b) |-> b[j][1]]), L \o ids)

OpInsert(v, i, b) ==
    LET ids == NewIds(1)  L == Filter(raw, v)  n == Len(L)  pos == VPos(raw, v)
        p == IF Views[v].kind = "raw" THEN PyInsertPos(i, n) + 1
             ELSE IF i >= n THEN Len(raw) + 1
             ELSE IF i < -n THEN 1
             ELSE pos[NormIndex(i, n) + 1]
    IN Res("", InsertAt(raw, p, ids), WithNew(val, ids, <<b[1][2]>>), WithNew(ty, ids, <<b[1][1]>>),
           PyInsert(L, i, ids[1]))

OpPop(v, i) ==
    LET L == Filter(raw, v)  n == Len(L)  pos == VPos(raw, v) IN
    IF ~ValidIndex(i, n) THEN Refuse("IndexError", v)
    ELSE Res("", RemoveAt(raw, pos[NormIndex(i, n) + 1]), val, ty, PyDelItem(L, i))

OpDelSlice(v, sl) ==
    LET L == Filter(raw, v)  n == Len(L)  pos == VPos(raw, v)  r == SliceRange(sl, n) IN
    Res("", DropPositions(raw, {pos[r[j] + 1] : j \in 1..Len(r)}), val, ty, PyDelSlice(L, sl))

\* view[i] = x.  String views update the value of the existing item in place.
OpSetItem(v, i, b) ==
    LET L == Filter(raw, v)  n == Len(L)  pos == VPos(raw, v)  ids == NewIds(1) IN
    IF ~ValidIndex(i, n) THEN Refuse("IndexError", v)
    ELSE IF Views[v].kind = "str" /\ ty[L[NormIndex(i, n) + 1]] = b[1][1] /\ b[1][1] \in InPlace
         THEN Res("", raw, [val EXCEPT ![L[NormIndex(i, n) + 1]] = b[1][2]], ty, L)   \* same kind of value: updated in place
         ELSE Res("", [raw EXCEPT ![pos[NormIndex(i, n) + 1]] = ids[1]],
                  WithNew(val, ids, <<b[1][2]>>), WithNew(ty, ids, <<b[1][1]>>), PySetItem(L, i, ids[1]))

\* view[slice] = batch
OpSetSlice(v, sl, b) ==
    LET L == Filter(raw, v)  n == Len(L)  pos == VPos(raw, v)  r == SliceRange(sl, n)
        ids == NewIds(Len(b))
        nval == WithNew(val, ids, [j \in 1..Len(b) |-> b[j][2]])
        nty == WithNew(ty, ids, [j \in 1..Len(b) |-> b[j][1]])
    IN
    IF Views[v].kind = "raw" THEN
        IF ~PySetSliceOK(L, sl, ids) THEN Refuse("ValueError", v)
        ELSE Res("", PySetSlice(raw, sl, ids), nval, nty, PySetSlice(L, sl, ids))
    ELSE \* filtered views only accept same-length assignment (documented refusal)
        IF Len(r) # Len(b) THEN Refuse("ValueError", v)
        ELSE IF Views[v].kind = "str" /\ (\E j \in 1..Len(r) : ty[L[r[j] + 1]] # b[j][1] \/ b[j][1] \notin InPlace)
             THEN Refuse("SKIP", v)      \* a value of another kind replaces the item: covered by setitem only
        ELSE IF Views[v].kind = "str"
             THEN Res("", raw, [id \in DOMAIN val |->
                                   IF \E j \in 1..Len(r) : L[r[j] + 1] = id
                                   THEN b[CHOOSE j \in 1..Len(r) : L[r[j] + 1] = id][2] ELSE val[id]],
                      ty, L)
             ELSE Res("", [k \in 1..Len(raw) |->
                              IF \E j \in 1..Len(r) : pos[r[j] + 1] = k
                              THEN ids[CHOOSE j \in 1..Len(r) : pos[r[j] + 1] = k] ELSE raw[k]],
                      nval, nty,
                      [k \in 1..n |-> IF InRange(r, k - 1) THEN ids[CHOOSE j \in 1..Len(r) : r[j] = k - 1] ELSE L[k]])

OpClear(v) ==
    LET pos == VPos(raw, v) IN
    Res("", DropPositions(raw, SeqSet(pos)), val, ty, <<>>)

\* remove(x): first element equal to x (same type and value); ValueError if there is none
OpRemove(v, t, x) ==
    LET L == Filter(raw, v)  pos == VPos(raw, v)
        M == {k \in 1..Len(L) : ty[L[k]] = t /\ val[L[k]] = x}
    IN IF M = {} THEN Refuse("ValueError", v)
       ELSE LET k == CHOOSE k \in M : \A k2 \in M : k <= k2
            IN Res("", RemoveAt(raw, pos[k]), val, ty, RemoveAt(L, k))

\* discard(x): every element equal to x, never an error
OpDiscard(v, t, x) ==
    LET L == Filter(raw, v)  pos == VPos(raw, v)
        M == {k \in 1..Len(L) : ty[L[k]] = t /\ val[L[k]] = x}
    IN Res("", DropPositions(raw, {pos[k] : k \in M}), val, ty, DropPositions(L, M))

\* mapping views: first item whose key equals k
FirstKey(L, k) == LET M == {j \in 1..Len(L) : val[L[j]] = k}
                  IN IF M = {} THEN 0 ELSE CHOOSE j \in M : \A j2 \in M : j <= j2

MSet(v, t, k, nv) ==
    LET L == Filter(raw, v)  pos == VPos(raw, v)  j == FirstKey(L, k)  ids == NewIds(1) IN
    IF j = 0 THEN Res("", raw \o ids, WithNew(val, ids, <<k>>), WithNew(ty, ids, <<t>>), L \o ids)
    ELSE IF Views[v].kind = "mapval" THEN Res("", raw, val, ty, L)       \* value updated in place
    ELSE Res("", [raw EXCEPT ![pos[j]] = ids[1]], WithNew(val, ids, <<k>>), WithNew(ty, ids, <<t>>),
             [L EXCEPT ![j] = ids[1]])

MDel(v, k) ==
    LET L == Filter(raw, v)  pos == VPos(raw, v)  j == FirstKey(L, k) IN
    IF j = 0 THEN Refuse("KeyError", v)
    ELSE Res("", RemoveAt(raw, pos[j]), val, ty, RemoveAt(L, j))

\* setdefault(k, x): the first match stays as it is; a missing key is appended
MSetDefault(v, t, k, nv) ==
    LET L == Filter(raw, v) IN
    IF FirstKey(L, k) # 0 THEN Res("", raw, val, ty, L) ELSE MSet(v, t, k, nv)

(* popitem() is inherited from collections.abc.MutableMapping; these hybrid sequence / mapping    *)
(* views document no meaning for it.  Two outcomes are admitted.  "refused": the call raises (on  *)
(* the current tree the mixin takes next(iter(view)), which is an ITEM, and indexes with it:      *)
(* TypeError; KeyError on an empty view) and is then a stutter (C19) - the exception class is not  *)
(* prescribed ("ANY").  "first" / "last": exactly one item of the view goes, the first (mixin     *)
(* order) or the last (dict order), everything else keeps identity and order.  The replay takes   *)
(* the branch the code took; anything else (two items gone, another item gone, a refusal that     *)
(* changed the list) matches neither.                                                             *)
MPopItem(v, mode) ==
    LET L == Filter(raw, v)  pos == VPos(raw, v)  n == Len(L)  j == IF mode = "first" THEN 1 ELSE n IN
    IF mode = "refused" THEN Refuse("ANY", v)
    ELSE IF n = 0 THEN Refuse("SKIP", v)
    ELSE Res("", RemoveAt(raw, pos[j]), val, ty, RemoveAt(L, j))

(* view.reverse() is what collections.abc.MutableSequence makes of it: pairwise swaps            *)
(* view[i], view[n-1-i] = view[n-1-i], view[i].  On views of NODES the first swap assigns an       *)
(* item that is still in the list, which is refused (C19) before anything changed; lists of 0 or 1 *)
(* items have nothing to swap.  On string views the values swap in place (items of one kind).     *)
OpReverse(v) ==
    LET L == Filter(raw, v)  n == Len(L) IN
    IF Views[v].kind = "str" THEN
        IF \E k \in 1..n : ty[L[k]] # ty[L[n + 1 - k]] \/ (n >= 2 /\ ty[L[k]] \notin InPlace) THEN Refuse("SKIP", v)
        ELSE Res("", raw,
                 [id \in DOMAIN val |-> IF \E k \in 1..n : L[k] = id
                                        THEN val[L[n + 1 - (CHOOSE k \in 1..n : L[k] = id)]] ELSE val[id]],
                 ty, L)
    ELSE IF n < 2 THEN Res("", raw, val, ty, L)
    ELSE Refuse("ValueError", v)

\* edit an item through the item object itself (not through any list view): its value changes
OpEdit(k, x) == Res("", raw, [val EXCEPT ![raw[k]] = x], ty, raw)

---------------------------------------------------------------------------
ViewsOfKind(K) == {v \in ViewNames : Views[v].kind \in K}
ItemType(v) == CHOOSE t \in Views[v].types : TRUE

Do(op, v, args, res) ==
    /\ res.exc # "SKIP"
    /\ Len(res.raw) <= MaxLen
    /\ raw' = res.raw /\ val' = res.val /\ ty' = res.ty
    /\ nextId' = nextId + Cardinality(DOMAIN res.ty \ DOMAIN ty)
    /\ last' = [view |-> v, claim |-> res.claim, exc |-> res.exc,
                kept |-> SelectSeq(raw, LAMBDA id : id \in SeqSet(res.raw)),
                keptAfter |-> SelectSeq(res.raw, LAMBDA id : id \in SeqSet(raw))]
    /\ hist' = Append(hist, [op |-> op, view |-> v, args |-> args, exc |-> res.exc,
                             new |-> [j \in 1..Cardinality(DOMAIN res.ty \ DOMAIN ty) |->
                                         <<nextId + j - 1, res.ty[nextId + j - 1], res.val[nextId + j - 1]>>],
                             raw |-> [k \in 1..Len(res.raw) |-> <<res.raw[k], res.ty[res.raw[k]], res.val[res.raw[k]]>>],
                             views |-> [w \in ViewNames |-> SelectSeq(res.raw, LAMBDA id : res.ty[id] \in Views[w].types)],
                             doc |-> Doc(res.raw)])

Next ==
    /\ steps < Depth /\ steps' = steps + 1
    /\ \E v \in ViewNames :
        LET n == Len(Filter(raw, v))  K == Views[v].kind IN
        \/ "append" \in Ops /\ \E b \in Batches(v, 1) : Do("append", v, [b |-> b], OpAppend(v, b))
        \/ "extend" \in Ops /\ \E k \in 0..MaxBatch : \E b \in Batches(v, k) :
                Do("extend", v, [b |-> b], OpAppend(v, b))
        \/ "insert" \in Ops /\ \E i \in IdxDom : \E b \in Batches(v, 1) :
                Do("insert", v, [i |-> i, b |-> b], OpInsert(v, i, b))
        \/ "pop" \in Ops /\ \E i \in IdxDom : Do("pop", v, [i |-> i], OpPop(v, i))
        \/ "delitem" \in Ops /\ \E i \in IdxDom : Do("delitem", v, [i |-> i], OpPop(v, i))
        \/ "delslice" \in Ops /\ \E sl \in SlicesFor(n) : Do("delslice", v, [sl |-> sl], OpDelSlice(v, sl))
        \/ "setitem" \in Ops /\ \E i \in IdxDom : \E b \in Batches(v, 1) :
                Do("setitem", v, [i |-> i, b |-> b], OpSetItem(v, i, b))
        \/ "setslice" \in Ops /\ \E sl \in SlicesFor(n) : \E k \in 0..MaxBatch : \E b \in Batches(v, k) :
                Do("setslice", v, [sl |-> sl, b |-> b], OpSetSlice(v, sl, b))
        \/ "clear" \in Ops /\ Do("clear", v, [x |-> 0], OpClear(v))
        \* operations inherited from collections.abc (MutableSequence / MutableMapping mixins)
        \/ "iadd" \in Ops /\ \E k \in 0..MaxBatch : \E b \in Batches(v, k) :
                Do("iadd", v, [b |-> b], OpAppend(v, b))
        \/ "reverse" \in Ops /\ Do("reverse", v, [x |-> 0], OpReverse(v))
        \/ "msetdefault" \in Ops /\ K \in {"map", "mapval"} /\ \E k \in Vals : \E nv \in Vals :
                Do("msetdefault", v, [k |-> k, nv |-> nv], MSetDefault(v, ItemType(v), k, nv))
        \/ "mpopitem" \in Ops /\ K \in {"map", "mapval"} /\ \E mode \in {"refused", "first", "last"} :
                Do("mpopitem", v, [mode |-> mode], MPopItem(v, mode))
        \/ "mupdate" \in Ops /\ K \in {"map", "mapval"} /\ \E k \in Vals : \E nv \in Vals :
                Do("mupdate", v, [k |-> k, nv |-> nv], MSet(v, ItemType(v), k, nv))
        \/ "remove" \in Ops /\ \E t \in Views[v].types : \E x \in Vals :
                Do("remove", v, [t |-> t, x |-> x], OpRemove(v, t, x))
        \/ "discard" \in Ops /\ K \in {"node", "str", "map", "mapval"} /\ \E t \in Views[v].types : \E x \in Vals :
                Do("discard", v, [t |-> t, x |-> x], OpDiscard(v, t, x))
        \/ "mset" \in Ops /\ K \in {"map", "mapval"} /\ \E k \in Vals : \E nv \in Vals :
                Do("mset", v, [k |-> k, nv |-> nv], MSet(v, ItemType(v), k, nv))
        \/ "mdel" \in Ops /\ K \in {"map", "mapval"} /\ \E k \in Vals : Do("mdel", v, [k |-> k], MDel(v, k))
        \/ "mpop" \in Ops /\ K \in {"map", "mapval"} /\ \E k \in Vals : Do("mpop", v, [k |-> k], MDel(v, k))
        \/ "edit" \in Ops /\ K = "raw" /\ \E k \in 1..Len(raw) : \E x \in Vals \ {val[raw[k]]} :
                Do("edit", v, [k |-> k, x |-> x], OpEdit(k, x))
        \* C19: a batch whose j-th element already lives in a document must be refused (ValueError)
        \* whatever the other arguments are; src = "same" (an item of this list) or "other" (another file)
        \/ Attached /\ K \in {"raw", "node", "map"} /\
           \E op \in ({"append", "insert", "setitem", "setslice", "extend", "mset"} \cap Ops)
                      \cup (IF "setslice" \in Ops THEN {"setext"} ELSE {}) :
           \E k \in 1..(IF op \in {"setslice", "extend"} THEN MaxBatch ELSE IF op = "setext" THEN 2 ELSE 1) : \E j \in 1..k :
           \E src \in {"same", "other", "otherdup", "freedup"} : \E i \in {0, -1, 1} :
              \* "freedup": one FREE node occupies two positions of the batch (it cannot be in the list twice)
              /\ (src = "freedup" => k >= 2 /\ op \in {"setslice", "extend", "setext"})
              \* a donor from this very list must lie outside the replaced range (first item, target = last)
              /\ (src = "same" => n > 0)
              /\ (src = "same" /\ op \in {"setitem", "setslice"} => n >= 2 /\ i = -1)
              /\ (op = "setitem" => ValidIndex(i, n))
              \* extended slice view[::2] = batch of 2 (needs 3 or 4 items); the donor must not be item 1 or 3
              /\ (op = "setext" => k = 2 /\ n \in {3, 4} /\ i = 0 /\ src # "same")
              /\ (op = "mset" => K = "map")
              /\ Do("attached", v, [op |-> op, k |-> k, j |-> j, src |-> src, i |-> i], Refuse("ValueError", v))

---------------------------------------------------------------------------
InitTypes(n) == [1..n -> InitTypeSet]
Init ==
    \E n \in InitLens : \E tys \in InitTypes(n) :
        /\ raw = [k \in 1..n |-> k]
        /\ ty = [k \in 1..n |-> tys[k]]
        /\ val = [k \in 1..n |-> IF (k % Cardinality(Vals)) + 1 \in Vals THEN (k % Cardinality(Vals)) + 1
                                 ELSE CHOOSE m \in Vals : TRUE]
        /\ nextId = n + 1
        /\ steps = 0
        /\ last = [view |-> CHOOSE v \in ViewNames : TRUE, claim |-> <<>>, exc |-> "init", kept |-> <<>>, keptAfter |-> <<>>]
        /\ hist = <<[op |-> "init", view |-> "", args |-> [x |-> 0], exc |-> "",
                     new |-> <<>>,
                     raw |-> [k \in 1..n |-> <<k, tys[k], IF (k % Cardinality(Vals)) + 1 \in Vals THEN (k % Cardinality(Vals)) + 1 ELSE CHOOSE m \in Vals : TRUE>>],
                     views |-> [w \in ViewNames |-> SelectSeq([k \in 1..n |-> k], LAMBDA id : tys[id] \in Views[w].types)],
                     doc |-> Doc([k \in 1..n |-> k])]>>

Spec == Init /\ [][Next]_vars

---------------------------------------------------------------------------
(* Invariants of the abstract design.                                      *)
\* C10: the view a call went through shows exactly the Python-list result
ClaimOK == last.exc = "init" \/ Filter(raw, last.view) = last.claim
\* C03/C05: items that survive a call keep identity and relative order
FrameOK == last.kept = last.keptAfter
\* a refused call is a stutter on the list (C19)
RefusalOK == (last.exc \notin {"", "init"}) => last.kept = raw
NoDupItems == \A i, j \in 1..Len(raw) : raw[i] = raw[j] => i = j
TypeOK == /\ SeqSet(raw) \subseteq DOMAIN ty /\ DOMAIN ty = DOMAIN val
          /\ \A id \in DOMAIN ty : ty[id] \in Types /\ val[id] \in Vals

Emit == (steps = Depth) => PrintT(<<"TRACE", ToJson(hist)>>)
=============================================================================

---------------------------- MODULE BlockStore ----------------------------
(***************************************************************************)
(* Implementation-shaped specification of autobean_refactor.token_store    *)
(* (TokenStore / _StoreBlock / _StoreHandle) together with the abstract    *)
(* sequence it must refine (variable `ref`, module TokenSeq's state).      *)
(*                                                                         *)
(* One action per public entry point of the class (splice / insert_after / *)
(* update); the bodies are line-by-line transcriptions of _splice,         *)
(* _update_block, _split_block, _merge_blocks, _build_blocks,              *)
(* _update_block_indexes, _StoreBlock.rebuild and TokenStore.update.       *)
(* Blocks are addressed through their *stored* `.index` wherever the code  *)
(* does so, which makes stale indices expressible (property C07), and the  *)
(* cached block size / last_newline_index are state (property C08).        *)
(*                                                                         *)
(* All stored indices are 0-based exactly as in the Python code; TLA+      *)
(* sequences are 1-based, so accesses read  seq[i + 1].                    *)
(***************************************************************************)
EXTENDS Naturals, Integers, Sequences, FiniteSets, TLC, Json

CONSTANTS
    L,            \* _LOAD_FACTOR (>= 2)
    MaxTok,       \* token identities are 1..MaxTok
    MaxLive,      \* bound on the number of tokens in the store
    MaxNew,       \* at most this many tokens inserted by one call
    Sizes,        \* set of <<lines, columns>> a new / updated token may have
    InitLens,     \* set of initial store lengths
    InitModes,    \* subset of {"plain", "onenl", "allnl"}: initial token sizes
    Fixes,        \* set of repaired deviations: {"StaleIndex"}
    Depth,        \* behaviours are explored to this many calls
    RecordHist    \* TRUE: keep the call history (behaviour generation)

VARIABLES
    blocks,   \* Seq of [index, toks, size, lastnl]  -- TokenStore._blocks
    handle,   \* [1..MaxTok -> <<block position (1-based) | 0 | -1, index>>]
    len,      \* TokenStore._len
    tsize,    \* [1..MaxTok -> <<lines, columns>>]   -- Token.size
    ref,      \* the abstract sequence of token ids (TokenSeq)
    err,      \* "" or the Python exception an internal step would raise
    steps,    \* number of calls made so far (bounds the exploration)
    hist      \* call history (only when RecordHist)

vars == <<blocks, handle, len, tsize, ref, err, steps, hist>>

DOUBLE  == L * 2
HALF    == L \div 2
ONEHALF == L + HALF

Tok   == 1..MaxTok
NoH   == <<0, 0>>       \* store_handle is None
Dangl == <<-1, -1>>     \* handle refers to a block object no longer in _blocks

---------------------------------------------------------------------------
(* Position monoid (token_store.Position.__iadd__)                         *)
PZero == <<0, 0>>
PAdd(a, b) == IF b[1] > 0 THEN <<a[1] + b[1], b[2]>> ELSE <<a[1], a[2] + b[2]>>

RECURSIVE SumSize(_, _)
SumSize(toks, sz) ==
    IF toks = <<>> THEN PZero
    ELSE PAdd(SumSize(SubSeq(toks, 1, Len(toks) - 1), sz), sz[toks[Len(toks)]])

\* 0-based index of the last token that contains a newline, else -1
LastNl(toks, sz) ==
    LET S == {i \in 1..Len(toks) : sz[toks[i]][1] > 0}
    IN IF S = {} THEN -1 ELSE (CHOOSE i \in S : \A j \in S : j <= i) - 1

RECURSIVE SumLines(_, _)
SumLines(toks, sz) ==
    IF toks = <<>> THEN 0 ELSE sz[Head(toks)][1] + SumLines(Tail(toks), sz)

SeqToSet(s) == {s[i] : i \in 1..Len(s)}

---------------------------------------------------------------------------
(* Working state of one call.  Block *objects* carry an `oid` while a call *)
(* is executing so that object identity (handles, stale references) is     *)
(* distinguishable from position in the list; between calls the state is   *)
(* canonicalised (oid = position).                                         *)
(*   w = [bl |-> Seq of [oid, index, toks, size, lastnl],                  *)
(*        h  |-> [Tok -> <<oid, idx>> | NoH],  len, next, err, sz]          *)

MkW(bs, h, n, sz) ==
    [bl   |-> [p \in 1..Len(bs) |-> [oid |-> p, index |-> bs[p].index, toks |-> bs[p].toks,
                                      size |-> bs[p].size, lastnl |-> bs[p].lastnl]],
     h    |-> h, len |-> n, next |-> Len(bs) + 1, err |-> "", sz |-> sz]

Fail(w, e) == [w EXCEPT !.err = IF w.err = "" THEN e ELSE w.err]

\* handles of all tokens of block object at position p point to (oid, i)
SetHandles(h, oid, toks) ==
    [t \in Tok |-> IF \E i \in 1..Len(toks) : toks[i] = t
                   THEN <<oid, (CHOOSE i \in 1..Len(toks) : toks[i] = t) - 1>>
                   ELSE h[t]]

\* _StoreBlock.rebuild()
Rebuild(w, p) ==
    LET b == w.bl[p] IN
    [w EXCEPT !.bl[p].size = SumSize(b.toks, w.sz),
              !.bl[p].lastnl = LastNl(b.toks, w.sz),
              !.h = SetHandles(w.h, b.oid, b.toks)]

\* TokenStore._update_block_indexes(i)   (i is 0-based)
UpdIdx(w, i) ==
    [w EXCEPT !.bl = [p \in 1..Len(w.bl) |->
                        IF p - 1 >= i THEN [w.bl[p] EXCEPT !.index = p - 1] ELSE w.bl[p]]]

\* _build_blocks: how a token list is cut into blocks
RECURSIVE Chunks(_)
Chunks(toks) ==
    LET n == Len(toks) IN
    IF n = 0 THEN <<>>
    ELSE IF n > ONEHALF THEN <<SubSeq(toks, 1, L)>> \o Chunks(SubSeq(toks, L + 1, n))
    ELSE IF n > L THEN <<SubSeq(toks, 1, n \div 2), SubSeq(toks, n \div 2 + 1, n)>>
    ELSE <<toks>>

\* _StoreBlock.from_tokens for every chunk, with fresh object ids
NewBlocks(w, startIndex, toks) ==
    LET cs == Chunks(toks) IN
    [k \in 1..Len(cs) |-> [oid |-> w.next + k - 1, index |-> startIndex + k - 1, toks |-> cs[k],
                           size |-> SumSize(cs[k], w.sz), lastnl |-> LastNl(cs[k], w.sz)]]

RECURSIVE SetHandlesAll(_, _)
SetHandlesAll(h, bs) ==
    IF bs = <<>> THEN h ELSE SetHandlesAll(SetHandles(h, Head(bs).oid, Head(bs).toks), Tail(bs))

\* Python  lst[i:j] = new   for 0 <= i <= j (clamped to the length like Python does)
SliceAssign(s, i, j, new) ==
    LET n == Len(s)  ii == IF i > n THEN n ELSE i  jj == IF j > n THEN n ELSE j
    IN SubSeq(s, 1, ii) \o new \o SubSeq(s, jj + 1, n)

\* TokenStore._split_block(block)   (block is the object at position p)
SplitBlock(w, p) ==
    LET b  == w.bl[p]
        nb == NewBlocks(w, b.index, b.toks)
        w1 == [w EXCEPT !.bl = SliceAssign(w.bl, b.index, b.index + 1, nb),
                        !.h = SetHandlesAll(w.h, nb),
                        !.next = w.next + Len(nb)]
    IN UpdIdx(w1, nb[Len(nb)].index + 1)

\* TokenStore._merge_blocks(a, b)   (objects at positions pa, pb)
MergeBlocks(w, pa, pb) ==
    LET a == w.bl[pa]  b == w.bl[pb]
        all == a.toks \o b.toks
    IN IF Len(all) < DOUBLE
       THEN LET w1 == Rebuild([w EXCEPT !.bl[pa].toks = all], pa)
                bi == b.index                      \* self._blocks.pop(b.index)
            IN IF bi >= Len(w1.bl) THEN Fail(w1, "IndexError")
               ELSE UpdIdx([w1 EXCEPT !.bl = SubSeq(w1.bl, 1, bi) \o SubSeq(w1.bl, bi + 2, Len(w1.bl))], bi)
       ELSE LET k  == Len(all) \div 2               \* len(a.tokens) >> 1
                w1 == [w EXCEPT !.bl[pa].toks = SubSeq(all, 1, k),
                                !.bl[pb].toks = SubSeq(all, k + 1, Len(all))]
            IN Rebuild(Rebuild(w1, pa), pb)

\* TokenStore._update_block(block)   (object at position p)
UpdateBlock(w, p) ==
    LET b == w.bl[p]  n == Len(b.toks) IN
    IF n >= DOUBLE THEN SplitBlock(w, p)
    ELSE IF n <= HALF /\ Len(w.bl) > 1 THEN
        IF b.index # 0
        THEN IF b.index > Len(w.bl) THEN Fail(w, "IndexError")
             ELSE MergeBlocks(w, b.index, p)             \* self._blocks[block.index - 1]
        ELSE IF b.index + 2 > Len(w.bl) THEN Fail(w, "IndexError")
             ELSE MergeBlocks(w, p, b.index + 2)          \* self._blocks[block.index + 1]
    ELSE LET w1 == Rebuild(w, p)
             nbi == b.index + 1
         IN IF nbi < Len(w1.bl) /\ w1.bl[nbi + 1].index # nbi THEN UpdIdx(w1, nbi) ELSE w1

ClearHandles(h, toks) == [t \in Tok |-> IF t \in SeqToSet(toks) THEN NoH ELSE h[t]]

\* lexicographic <= on pairs
LeqPair(a, b) == a[1] < b[1] \/ (a[1] = b[1] /\ a[2] <= b[2])

\* stored index of the block object a handle points to (-1 if that object is gone)
HBlockIndex(w, hd) ==
    IF \E p \in 1..Len(w.bl) : w.bl[p].oid = hd[1]
    THEN w.bl[CHOOSE p \in 1..Len(w.bl) : w.bl[p].oid = hd[1]].index
    ELSE -1

\* TokenStore._splice(tokens, start, end)  -- start/end are 0-based (block, index) pairs
SpliceImpl(w, tokens, start, end) ==
    LET si == start[1]  sj == start[2]  ei == end[1]  ej == end[2]
        foreign == \E k \in 1..Len(tokens) :
                      /\ w.h[tokens[k]] # NoH
                      /\ LET pos == <<HBlockIndex(w, w.h[tokens[k]]), w.h[tokens[k]][2]>>
                         IN ~(LeqPair(start, pos) /\ LeqPair(pos, end))
    IN
    IF foreign THEN Fail(w, "ValueError")
    ELSE IF si + 1 > Len(w.bl) \/ ei + 1 > Len(w.bl) THEN Fail(w, "IndexError")
    ELSE IF si = ei THEN
        LET b       == w.bl[si + 1]
            removed == SubSeq(b.toks, sj + 1, ej)
            ntoks   == SubSeq(b.toks, 1, sj) \o tokens \o SubSeq(b.toks, ej + 1, Len(b.toks))
            h1      == ClearHandles(w.h, removed)
            w1      == [w EXCEPT !.bl[si + 1].toks = ntoks, !.h = h1,
                                 !.len = w.len + Len(tokens) - (ej - sj)]
        IN IF Len(ntoks) < DOUBLE /\ (Len(ntoks) > HALF \/ Len(w.bl) = 1) /\ b.lastnl >= ej
           THEN \* fast path: fix handles from start_j on, shift last_newline_index, adjust lines
                LET tail == [t \in Tok |->
                               IF \E i \in sj + 1..Len(ntoks) : ntoks[i] = t
                               THEN <<b.oid, (CHOOSE i \in sj + 1..Len(ntoks) : ntoks[i] = t) - 1>>
                               ELSE h1[t]]
                IN [w1 EXCEPT !.h = tail,
                              !.bl[si + 1].lastnl = b.lastnl + Len(tokens) - (ej - sj),
                              !.bl[si + 1].size = <<b.size[1] - SumLines(removed, w.sz) + SumLines(tokens, w.sz),
                                                    b.size[2]>>]
           ELSE UpdateBlock(w1, si + 1)
    ELSE IF si > ei THEN Fail(w, "Misuse")
    ELSE
        LET bs == w.bl[si + 1]  be == w.bl[ei + 1]
            mid == [p \in si + 2..ei |-> w.bl[p].toks]
            removedSet == {bs.toks[i] : i \in sj + 1..Len(bs.toks)}
                          \cup UNION {SeqToSet(w.bl[p].toks) : p \in si + 2..ei}
                          \cup {be.toks[i] : i \in 1..ej}
            h1 == [t \in Tok |-> IF t \in removedSet THEN NoH ELSE w.h[t]]
            nb == [oid |-> w.next, index |-> si,
                   toks |-> SubSeq(bs.toks, 1, sj) \o tokens \o SubSeq(be.toks, ej + 1, Len(be.toks)),
                   size |-> PZero, lastnl |-> -1]
            w1 == [w EXCEPT !.bl = SubSeq(w.bl, 1, si) \o <<nb>> \o SubSeq(w.bl, ei + 2, Len(w.bl)),
                            !.h = h1, !.next = w.next + 1,
                            !.len = w.len + Len(tokens) - Cardinality(removedSet)]
            w2 == IF "StaleIndex" \in Fixes THEN UpdIdx(w1, si + 1) ELSE w1
        IN UpdateBlock(w2, si + 1)

\* TokenStore.update(token, raw_text, size) followed by Token.size = size
UpdateImpl(w, t, nsz) ==
    LET hd  == w.h[t]
        p   == CHOOSE q \in 1..Len(w.bl) : w.bl[q].oid = hd[1]
        b   == w.bl[p]
        i   == hd[2]
        old == w.sz[t]
        b1  == [b EXCEPT !.size = <<b.size[1] + nsz[1] - old[1], b.size[2]>>]
        colsAfter == LET RECURSIVE S(_) S(k) == IF k > Len(b.toks) THEN 0 ELSE w.sz[b.toks[k]][2] + S(k + 1)
                     IN S(i + 2)
        \* backwards scan for the previous newline token
        prevNl == LET S == {k \in 1..i : w.sz[b.toks[k]][1] > 0}
                  IN IF S = {} THEN -1 ELSE (CHOOSE k \in S : \A j \in S : j <= k) - 1
        colsBack == LET lo == IF prevNl = -1 THEN 1 ELSE prevNl + 1
                        RECURSIVE S(_) S(k) == IF k > i THEN 0 ELSE w.sz[b.toks[k]][2] + S(k + 1)
                    IN S(lo)
        b2 == IF i < b.lastnl THEN b1
              ELSE IF nsz[1] > 0 /\ old[1] = 0
                   THEN [b1 EXCEPT !.lastnl = i, !.size = <<b1.size[1], nsz[2] + colsAfter>>]
              ELSE IF old[1] > 0 /\ nsz[1] = 0
                   THEN [b1 EXCEPT !.lastnl = prevNl,
                                   !.size = <<b1.size[1], b.size[2] + nsz[2] - old[2] + colsBack>>]
              ELSE [b1 EXCEPT !.size = <<b1.size[1], b.size[2] + nsz[2] - old[2]>>]
    IN [w EXCEPT !.bl[p] = b2, !.sz[t] = nsz]

---------------------------------------------------------------------------
(* Canonical form between calls: oid := position.                          *)
Canon(w) ==
    LET posOf(oid) == IF \E p \in 1..Len(w.bl) : w.bl[p].oid = oid
                      THEN CHOOSE p \in 1..Len(w.bl) : w.bl[p].oid = oid ELSE -1
    IN [bs |-> [p \in 1..Len(w.bl) |-> [index |-> w.bl[p].index, toks |-> w.bl[p].toks,
                                         size |-> w.bl[p].size, lastnl |-> w.bl[p].lastnl]],
        h  |-> [t \in Tok |-> IF w.h[t] = NoH THEN NoH
                              ELSE IF posOf(w.h[t][1]) = -1 THEN Dangl
                              ELSE <<posOf(w.h[t][1]), w.h[t][2]>>]]

---------------------------------------------------------------------------
(* Abstract sequence operations (TokenSeq)                                 *)
IndexIn(s, t) == CHOOSE i \in 1..Len(s) : s[i] = t
Live == SeqToSet(ref)
Free == Tok \ Live

\* the k smallest free token ids, as a sequence
RECURSIVE FirstFree(_, _)
FirstFree(S, k) == IF k = 0 \/ S = {} THEN <<>>
                   ELSE LET m == CHOOSE x \in S : \A y \in S : x <= y
                        IN <<m>> \o FirstFree(S \ {m}, k - 1)

Reverse(s) == [i \in 1..Len(s) |-> s[Len(s) - i + 1]]

\* (block, index) of a live token as the API computes it: stored block index, handle index
HPos(t) == <<blocks[handle[t][1]].index, handle[t][2]>>

Summary == [ref |-> ref, lens |-> [p \in 1..Len(blocks) |-> Len(blocks[p].toks)],
            idx |-> [p \in 1..Len(blocks) |-> blocks[p].index], err |-> err]

Record(ev) == hist' = IF RecordHist THEN Append(hist, ev @@ [post |-> Summary']) ELSE hist

Commit(w, newref, ev) ==
    LET c == Canon(w) IN
    /\ blocks' = c.bs
    /\ handle' = c.h
    /\ len' = w.len
    /\ tsize' = w.sz
    /\ err' = w.err
    /\ ref' = IF w.err = "" THEN newref ELSE ref
    /\ Record(ev)

\* every handle of a live token must be resolvable for the API to compute start/end at all
Usable(t) == handle[t] # NoH /\ handle[t] # Dangl

(* splice(tokens, ref, del_end): r = 0 means ref is None, e = 0 means del_end is None.      *)
(* kind "new": tokens are k fresh tokens with sizes given by szs;                            *)
(* kind "rot": tokens are the removed range reversed (what the comment claimer does).        *)
Splice(r, e, kind, k, szs) ==
    /\ err = ""
    /\ r \in 0..Len(ref) /\ e \in 0..Len(ref)
    /\ e # 0 => e >= r /\ e >= 1
    /\ r # 0 => Usable(ref[r])
    /\ e # 0 => Usable(ref[e])
    /\ LET a       == IF r = 0 THEN 1 ELSE r                  \* abstract: delete ref[a..e], insert at a
           removed == IF e = 0 THEN <<>> ELSE SubSeq(ref, a, e)
           tokens  == IF kind = "rot" THEN Reverse(removed) ELSE FirstFree(Free, k)
           sz1     == [t \in Tok |-> IF kind = "new" /\ \E i \in 1..Len(tokens) : tokens[i] = t
                                     THEN szs[CHOOSE i \in 1..Len(tokens) : tokens[i] = t] ELSE tsize[t]]
           start   == IF r = 0 THEN <<0, 0>> ELSE HPos(ref[r])
           end     == IF e = 0 THEN start ELSE <<HPos(ref[e])[1], HPos(ref[e])[2] + 1>>
           newref  == SubSeq(ref, 1, a - 1) \o tokens \o
                      SubSeq(ref, (IF e = 0 THEN a ELSE e + 1), Len(ref))
       IN /\ kind = "rot" => (e # 0 /\ k = 0)
          /\ kind = "new" => Len(tokens) = k
          /\ Len(newref) <= MaxLive
          /\ Commit(SpliceImpl(MkW(blocks, handle, len, sz1), tokens, start, end), newref,
                    [op |-> "splice", r |-> r, e |-> e, kind |-> kind, toks |-> tokens,
                     szs |-> [i \in 1..Len(tokens) |-> sz1[tokens[i]]]])

(* insert_after(ref, tokens): r = 0 means ref is None *)
InsertAfter(r, k, szs) ==
    /\ err = ""
    /\ r \in 0..Len(ref)
    /\ r # 0 => Usable(ref[r])
    /\ LET tokens == FirstFree(Free, k)
           sz1    == [t \in Tok |-> IF \E i \in 1..Len(tokens) : tokens[i] = t
                                    THEN szs[CHOOSE i \in 1..Len(tokens) : tokens[i] = t] ELSE tsize[t]]
           start  == IF r = 0 THEN <<0, 0>> ELSE <<HPos(ref[r])[1], HPos(ref[r])[2] + 1>>
           newref == SubSeq(ref, 1, r) \o tokens \o SubSeq(ref, r + 1, Len(ref))
       IN /\ Len(tokens) = k
          /\ Len(newref) <= MaxLive
          /\ Commit(SpliceImpl(MkW(blocks, handle, len, sz1), tokens, start, start), newref,
                    [op |-> "insert_after", r |-> r, toks |-> tokens,
                     szs |-> [i \in 1..Len(tokens) |-> sz1[tokens[i]]]])

(* splice([t], ref, del_end) where t lives in the store outside the replaced range: refused *)
Foreign(r, e, f) ==
    /\ err = ""
    /\ r \in 1..Len(ref) /\ e \in 0..Len(ref) /\ f \in 1..Len(ref)
    /\ e # 0 => e >= r
    /\ f < r \/ f > (IF e = 0 THEN r ELSE e + 1)    \* strictly outside (the boundary is unspecified)
    /\ Usable(ref[r]) /\ (e # 0 => Usable(ref[e])) /\ Usable(ref[f])
    /\ LET start == HPos(ref[r])
           end   == IF e = 0 THEN start ELSE <<HPos(ref[e])[1], HPos(ref[e])[2] + 1>>
           w     == SpliceImpl(MkW(blocks, handle, len, tsize), <<ref[f]>>, start, end)
       IN \* the refusal itself is part of the contract: anything else is an error state
          /\ err' = IF w.err = "ValueError" THEN "" ELSE "NotRefused"
          /\ UNCHANGED <<blocks, handle, len, tsize, ref>>
          /\ Record([op |-> "foreign", r |-> r, e |-> e, f |-> f])

(* token.raw_text = ... (Token._update_raw_text): new size nsz *)
Update(i, nsz) ==
    /\ err = ""
    /\ i \in 1..Len(ref)
    /\ Usable(ref[i])
    /\ nsz # tsize[ref[i]]
    /\ Commit(UpdateImpl(MkW(blocks, handle, len, tsize), ref[i], nsz), ref,
              [op |-> "update", i |-> i, tok |-> ref[i], sz |-> nsz])

SizeSeqs(k) == [1..k -> Sizes]


Ops ==
    \/ \E r \in 0..Len(ref), e \in 0..Len(ref), k \in 0..MaxNew : \E szs \in SizeSeqs(k) :
          Splice(r, e, "new", k, szs)
    \/ \E r \in 0..Len(ref), e \in 1..Len(ref) : Splice(r, e, "rot", 0, <<>>)
    \/ \E r \in 0..Len(ref), k \in 0..MaxNew : \E szs \in SizeSeqs(k) : InsertAfter(r, k, szs)    \* (k = 0: an empty batch)
    \/ \E r \in 1..Len(ref), e \in 0..Len(ref) :
          \E f \in {r - 1, (IF e = 0 THEN r + 1 ELSE e + 2), 1, Len(ref)} \cap 1..Len(ref) : Foreign(r, e, f)
    \/ \E i \in 1..Len(ref) : \E nsz \in Sizes : Update(i, nsz)


Next == steps < Depth /\ steps' = steps + 1 /\ Ops

---------------------------------------------------------------------------
(* Initial states: TokenStore.from_tokens([1..n])                          *)
InitSizes(n) ==
    (IF "plain" \in InitModes THEN {[t \in Tok |-> <<0, 1>>]} ELSE {}) \cup
    (IF "allnl" \in InitModes THEN {[t \in Tok |-> IF t <= n THEN <<1, 0>> ELSE <<0, 1>>]} ELSE {}) \cup
    (IF "onenl" \in InitModes
     THEN {[t \in Tok |-> IF t = j THEN <<1, 2>> ELSE <<0, 1>>] : j \in 1..n} ELSE {})

Init ==
    \E n \in InitLens : \E sz \in InitSizes(n) :
       LET toks == [i \in 1..n |-> i]
           w0   == [bl |-> <<>>, h |-> [t \in Tok |-> NoH], len |-> n, next |-> 1, err |-> "", sz |-> sz]
           nb   == IF n = 0 THEN <<[oid |-> 1, index |-> 0, toks |-> <<>>, size |-> PZero, lastnl |-> -1]>>
                   ELSE NewBlocks(w0, 0, toks)
           c    == Canon([w0 EXCEPT !.bl = nb, !.h = SetHandlesAll(w0.h, nb)])
       IN /\ blocks = c.bs /\ handle = c.h /\ len = n /\ tsize = sz /\ ref = toks /\ err = "" /\ steps = 0
          /\ hist = IF RecordHist THEN <<[op |-> "init", n |-> n,
                                          szs |-> [i \in 1..n |-> sz[i]],
                                          post |-> [ref |-> toks,
                                                    lens |-> [p \in 1..Len(c.bs) |-> Len(c.bs[p].toks)],
                                                    idx |-> [p \in 1..Len(c.bs) |-> c.bs[p].index],
                                                    err |-> ""]]>>
                    ELSE <<>>

Spec == Init /\ [][Next]_vars

---------------------------------------------------------------------------
(* Invariants                                                              *)
RECURSIVE FlattenB(_)
FlattenB(bs) == IF bs = <<>> THEN <<>> ELSE Head(bs).toks \o FlattenB(Tail(bs))

NoErr     == err = ""
FlatOK    == FlattenB(blocks) = ref                       \* refinement mapping to TokenSeq
LenOK     == len = Len(ref)
IndexOK   == \A p \in 1..Len(blocks) : blocks[p].index = p - 1
HandlesOK == /\ \A p \in 1..Len(blocks) : \A i \in 1..Len(blocks[p].toks) :
                    handle[blocks[p].toks[i]] = <<p, i - 1>>
             /\ \A t \in Tok : t \notin SeqToSet(FlattenB(blocks)) => handle[t] = NoH
SizeCacheOK == \A p \in 1..Len(blocks) :
                  /\ blocks[p].size = SumSize(blocks[p].toks, tsize)
                  /\ blocks[p].lastnl = LastNl(blocks[p].toks, tsize)
ShapeOK   == /\ Len(blocks) >= 1
             /\ Len(blocks) > 1 => \A p \in 1..Len(blocks) : blocks[p].toks # <<>>
NoDup     == \A i, j \in 1..Len(ref) : ref[i] = ref[j] => i = j
\* informational (not part of any listed property): rebalancing keeps blocks within bounds
Balanced  == Len(blocks) > 1 => \A p \in 1..Len(blocks) :
                  Len(blocks[p].toks) > HALF /\ Len(blocks[p].toks) < DOUBLE

(* The getters, transcribed, against the abstract sequence.                *)
GetIndex(t) ==
    LET bi == blocks[handle[t][1]].index
        RECURSIVE S(_) S(p) == IF p > bi THEN 0 ELSE Len(blocks[p].toks) + S(p + 1)
    IN handle[t][2] + S(1)
GetPosition(t) ==
    LET bi == blocks[handle[t][1]].index
        RECURSIVE B(_) B(p) == IF p = 0 THEN PZero ELSE PAdd(B(p - 1), blocks[p].size)
        b  == blocks[handle[t][1]]
        RECURSIVE T(_) T(i) == IF i = 0 THEN B(bi) ELSE PAdd(T(i - 1), tsize[b.toks[i]])
    IN T(handle[t][2])
AbsPosition(i) == SumSize(SubSeq(ref, 1, i - 1), tsize)
GetNext(t) ==
    LET b == blocks[handle[t][1]]  i == handle[t][2] IN
    IF i + 1 < Len(b.toks) THEN b.toks[i + 2]
    ELSE IF b.index + 1 < Len(blocks) THEN
            (IF blocks[b.index + 2].toks = <<>> THEN -1 ELSE blocks[b.index + 2].toks[1])
    ELSE 0
GetPrev(t) ==
    LET b == blocks[handle[t][1]]  i == handle[t][2] IN
    IF i # 0 THEN b.toks[i]
    ELSE IF b.index # 0 /\ blocks[b.index].toks # <<>> THEN blocks[b.index].toks[Len(blocks[b.index].toks)]
    ELSE 0
GettersOK ==
    (err = "" /\ IndexOK /\ HandlesOK) =>
    \A i \in 1..Len(ref) :
        /\ GetIndex(ref[i]) = i - 1
        /\ GetPosition(ref[i]) = AbsPosition(i)
        /\ GetNext(ref[i]) = IF i < Len(ref) THEN ref[i + 1] ELSE 0
        /\ GetPrev(ref[i]) = IF i > 1 THEN ref[i - 1] ELSE 0

---------------------------------------------------------------------------
Emit  == (RecordHist /\ Len(hist) = Depth + 1) => PrintT(<<"TRACE", ToJson(hist)>>)
Constraint == Emit
=============================================================================

-------------------------------- MODULE Tree --------------------------------
(***************************************************************************)
(* What "a valid syntax tree over its tokens" means (C05).                 *)
(* A dump is: n tokens 1..n in store order, sig[i] (token i is significant *)
(* = its terminal is neither %ignore'd nor _-prefixed), and nodes: node 1  *)
(* is the root; a node is [leaf, same, tok, first, last, kids] where        *)
(* first/last/tok are token numbers (0 = not in the root's store), `same`  *)
(* says the node lives in the root's store, kids are node numbers.         *)
(* The harness evaluates these predicates on real trees with a line-by-    *)
(* line Python transliteration (vlib/tree.py::_wf); TLC evaluates THIS      *)
(* module on sampled dumps - including deliberately corrupted ones - and    *)
(* the two verdicts are compared clause by clause.                         *)
(***************************************************************************)
EXTENDS Naturals, Sequences, FiniteSets, TLC, Json, IOUtils

Dumps == JsonDeserialize(IOEnv.TRACE_FILE)
VARIABLES k
vars == <<k>>

Nodes(d) == d.nodes
N(d, i) == d.nodes[i]
Inner(d) == {i \in 1..Len(d.nodes) : ~N(d, i).leaf}
Leaves(d) == {i \in 1..Len(d.nodes) : N(d, i).leaf}
Spanned(d, i) == N(d, i).first # 0 /\ N(d, i).last # 0

SameStore(d) == \A i \in 1..Len(d.nodes) : N(d, i).same
InStore(d) == \A i \in Inner(d) : Spanned(d, i)
LeafInStore(d) == \A i \in Leaves(d) : N(d, i).tok # 0
SpanOrdered(d) == \A i \in Inner(d) : Spanned(d, i) => N(d, i).first <= N(d, i).last
\* children with a known span lie inside their parent's span
ChildrenNested(d) ==
    \A i \in Inner(d) : Spanned(d, i) =>
        \A j \in 1..Len(N(d, i).kids) :
            LET c == N(d, i).kids[j] IN
            Spanned(d, c) => N(d, c).first >= N(d, i).first /\ N(d, c).last <= N(d, i).last
\* ... and do not overlap one another
SiblingsDisjoint(d) ==
    \A i \in Inner(d) : \A a, b \in 1..Len(N(d, i).kids) :
        LET ca == N(d, i).kids[a]  cb == N(d, i).kids[b] IN
        (a # b /\ Spanned(d, ca) /\ Spanned(d, cb)) =>
            (N(d, ca).last < N(d, cb).first \/ N(d, cb).last < N(d, ca).first)
\* no token object is a leaf at two tree positions
LeafOwnedOnce(d) == \A a, b \in Leaves(d) : (a # b /\ N(d, a).tok # 0) => N(d, a).tok # N(d, b).tok
Owners(d, t) == Cardinality({i \in Leaves(d) : N(d, i).tok = t})
\* every significant token inside the root's span is a leaf exactly once
SignificantOwned(d) ==
    Spanned(d, 1) => \A t \in N(d, 1).first..N(d, 1).last : d.sig[t] => Owners(d, t) = 1
SelfContained(d) == Spanned(d, 1) => N(d, 1).first = 1 /\ N(d, 1).last = d.n
StoreNoDup(d) == ~d.dup

Violated(d) ==
    (IF SameStore(d) THEN {} ELSE {"SameStore"}) \cup (IF InStore(d) THEN {} ELSE {"InStore"}) \cup
    (IF LeafInStore(d) THEN {} ELSE {"LeafInStore"}) \cup (IF SpanOrdered(d) THEN {} ELSE {"SpanOrdered"}) \cup
    (IF ChildrenNested(d) THEN {} ELSE {"ChildrenNested"}) \cup (IF SiblingsDisjoint(d) THEN {} ELSE {"SiblingsDisjoint"}) \cup
    (IF LeafOwnedOnce(d) THEN {} ELSE {"LeafOwnedOnce"}) \cup (IF SignificantOwned(d) THEN {} ELSE {"SignificantOwned"}) \cup
    (IF StoreNoDup(d) THEN {} ELSE {"StoreNoDup"}) \cup
    (IF d.selfcontained /\ ~SelfContained(d) THEN {"SelfContained"} ELSE {})

TInit == k \in 1..Len(Dumps)
TNext == UNCHANGED k
Report == PrintT(<<"VERDICT", k, ToJson(Violated(Dumps[k]))>>)
=============================================================================

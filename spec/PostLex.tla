------------------------------ MODULE PostLex ------------------------------
(***************************************************************************)
(* parser.PostLex.process as a state machine over abstract lexemes.        *)
(* An input lexeme is a record [nl, ind, com] of booleans: the three groups*)
(* (all FALSE = any other token, passed through)                           *)
(* of the split regex (newlines, blanks, comment).  Output tokens are      *)
(* <<type, piece>> where piece says which part of the input lexeme's text  *)
(* the token carries ("" for the zero-width marks).                        *)
(***************************************************************************)
EXTENDS Naturals, Sequences, TLC, Json

CONSTANTS MaxLen

Other == [nl |-> FALSE, ind |-> FALSE, com |-> FALSE]   \* stands for any non-NIC token
NICs == {[nl |-> a, ind |-> b, com |-> c] : a, b, c \in BOOLEAN} \ {Other}

VARIABLES input, indented, prevBC, out, done
vars == <<input, indented, prevBC, out, done>>

Init == input = <<>> /\ indented = FALSE /\ prevBC = FALSE /\ out = <<>> /\ done = FALSE

\* tokens emitted for one _NEWLINE_INDENT_COMMENT lexeme x in state (indented, prevBC)
Emitted(x, ind0, pbc) ==
    (IF x.nl /\ ~pbc THEN <<<<"EOL", "">>>> ELSE <<>>) \o
    (IF ~x.ind /\ ind0 THEN <<<<"DEDENT_MARK", "">>>> ELSE <<>>) \o
    (IF x.nl THEN <<<<"_NEWLINE", "nl">>>> ELSE <<>>) \o
    (IF x.ind /\ ~ind0 THEN <<<<"INDENT_MARK", "">>>> ELSE <<>>) \o
    (IF x.com THEN <<<<"BLOCK_COMMENT", IF x.ind THEN "ind+com" ELSE "com">>>>
     ELSE IF x.ind THEN <<<<"INDENT", "ind">>>> ELSE <<>>)

FeedOther ==
    /\ ~done /\ Len(input) < MaxLen
    /\ input' = Append(input, Other)
    /\ out' = Append(out, <<"OTHER", "all">>)
    /\ UNCHANGED <<indented, prevBC, done>>     \* NB: the code does not reset prev_is_block_comment here

FeedNIC(x) ==
    /\ ~done /\ Len(input) < MaxLen
    /\ input' = Append(input, x)
    /\ out' = out \o Emitted(x, indented, prevBC)
    /\ indented' = IF ~x.ind /\ indented THEN FALSE ELSE IF x.ind /\ ~indented THEN TRUE ELSE indented
    /\ prevBC' = x.com
    /\ UNCHANGED done

Finish ==
    /\ ~done
    /\ out' = out \o (IF ~prevBC THEN <<<<"EOL", "">>>> ELSE <<>>) \o (IF indented THEN <<<<"DEDENT_MARK", "">>>> ELSE <<>>)
    /\ done' = TRUE
    /\ UNCHANGED <<input, indented, prevBC>>

Next == FeedOther \/ (\E x \in NICs : FeedNIC(x)) \/ Finish

(* Invariants *)
Types(o) == [i \in 1..Len(o) |-> o[i][1]]
Marks(o) == SelectSeq(Types(o), LAMBDA t : t \in {"INDENT_MARK", "DEDENT_MARK"})
\* marks strictly alternate, starting with INDENT_MARK ...
MarksAlternate == \A i \in 1..Len(Marks(out)) :
                     Marks(out)[i] = IF i % 2 = 1 THEN "INDENT_MARK" ELSE "DEDENT_MARK"
\* ... and are closed at end of input
MarksClosed == done => Len(Marks(out)) % 2 = 0
\* every character of the input is carried by exactly one output token, in order
Pieces(o) == SelectSeq([i \in 1..Len(o) |-> o[i][2]], LAMBDA p : p # "")
InputPieces(inp) ==
    LET RECURSIVE P(_) P(k) ==
          IF k > Len(inp) THEN <<>>
          ELSE (IF inp[k] = Other THEN <<"all">>
                ELSE (IF inp[k].nl THEN <<"nl">> ELSE <<>>) \o
                     (IF inp[k].com THEN <<IF inp[k].ind THEN "ind+com" ELSE "com">>
                      ELSE IF inp[k].ind THEN <<"ind">> ELSE <<>>)) \o P(k + 1)
    IN P(1)
TextPreserved == Pieces(out) = InputPieces(input)
\* the indented flag says whether an INDENT_MARK is open
IndentedFlagOK == ~done => (indented <=> Len(Marks(out)) % 2 = 1)

Emit == done => PrintT(<<"TRACE", ToJson([input |-> input, out |-> out])>>)
=============================================================================

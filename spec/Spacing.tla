------------------------------ MODULE Spacing ------------------------------
(***************************************************************************)
(* spacing_before / spacing_after (C17) over a token row.                  *)
(* Token kinds: "Z" zero-width (placeholders, end-of-line and dedent       *)
(* marks), "B" blanks, "N" newline, "O" anything else.                     *)
(*   run after a model ending at index b: skip the Z tokens directly after *)
(*   b, then the maximal run of B / N tokens (a Z token ends the run)      *)
(*   run before a model starting at index a: the mirror image              *)
(* The getter returns exactly the tokens of the run; the setter replaces   *)
(* exactly the run by fresh B / N tokens spelling the assigned string (or  *)
(* inserts them right next to the model when the run is empty) and touches *)
(* nothing else.  Recorded executions are validated against this.          *)
(* A row is a sequence of [id, k, n] (identity, kind, text length).        *)
(***************************************************************************)
EXTENDS Naturals, Integers, Sequences, FiniteSets, TLC, Json, IOUtils

Traces == JsonDeserialize(IOEnv.TRACE_FILE)
VARIABLES tid, l, verdict, why
vars == <<tid, l, verdict, why>>
Ev == Traces[tid].events[l]
Done == l > Len(Traces[tid].events)

IsSp(t) == t.k \in {"B", "N"}

\* first index >= i that is not Z (Len+1 if none)
RECURSIVE SkipZF(_, _)
SkipZF(row, i) == IF i > Len(row) \/ row[i].k # "Z" THEN i ELSE SkipZF(row, i + 1)
RECURSIVE SkipZB(_, _)
SkipZB(row, i) == IF i < 1 \/ row[i].k # "Z" THEN i ELSE SkipZB(row, i - 1)
RECURSIVE EndF(_, _)
EndF(row, i) == IF i > Len(row) \/ ~IsSp(row[i]) THEN i - 1 ELSE EndF(row, i + 1)
RECURSIVE EndB(_, _)
EndB(row, i) == IF i < 1 \/ ~IsSp(row[i]) THEN i + 1 ELSE EndB(row, i - 1)

\* the run as <<lo, hi>> (lo > hi when empty)
RunAfter(row, b) == LET s == SkipZF(row, b + 1) IN <<s, EndF(row, s)>>
RunBefore(row, a) == LET e == SkipZB(row, a - 1) IN <<EndB(row, e), e>>
Run(row, a, b, side) == IF side = "after" THEN RunAfter(row, b) ELSE RunBefore(row, a)

Ids(row, lo, hi) == [i \in 1..(IF hi >= lo THEN hi - lo + 1 ELSE 0) |-> row[lo + i - 1].id]
RECURSIVE Width(_, _, _)
Width(row, lo, hi) == IF hi < lo THEN 0 ELSE row[lo].n + Width(row, lo + 1, hi)
IdSet(row) == {row[i].id : i \in 1..Len(row)}

GetClause(ev) ==
    LET r == Run(ev.row, ev.a, ev.b, ev.side) IN
    IF ev.got # Ids(ev.row, r[1], r[2]) THEN "getter-not-the-adjacent-run" ELSE "ok"

SetClause(ev) ==
    LET r == Run(ev.row, ev.a, ev.b, ev.side)
        lo == r[1]  hi == r[2]
        \* where the new tokens go
        ins == IF hi >= lo THEN lo ELSE IF ev.side = "after" THEN ev.b + 1 ELSE ev.a
        keepL == SubSeq(ev.row, 1, ins - 1)
        keepR == SubSeq(ev.row, (IF hi >= lo THEN hi + 1 ELSE ins), Len(ev.row))
        nnew == Len(ev.row2) - Len(keepL) - Len(keepR)
        new == SubSeq(ev.row2, Len(keepL) + 1, Len(keepL) + nnew)
    IN IF nnew < 0 THEN "setter-removed-other-tokens"
       ELSE IF SubSeq(ev.row2, 1, Len(keepL)) # keepL THEN "tokens-before-the-run-changed"
       ELSE IF SubSeq(ev.row2, Len(keepL) + nnew + 1, Len(ev.row2)) # keepR THEN "tokens-after-the-run-changed"
       ELSE IF \E i \in 1..nnew : ~IsSp(new[i]) \/ new[i].id \in IdSet(ev.row) THEN "setter-inserted-non-whitespace"
       ELSE IF Width(new, 1, nnew) # ev.slen THEN "length-not-changed-by-the-difference"
       ELSE IF ev.slen > 0 /\ ~ev.readback THEN "assigned-spacing-not-read-back"
       ELSE "ok"

AdjClause(ev) == IF ev.same THEN "ok" ELSE "neighbours-see-different-runs"

Step == /\ verdict = "run" /\ ~Done
        /\ LET c == CASE Ev.op = "get" -> GetClause(Ev) [] Ev.op = "set" -> SetClause(Ev) [] Ev.op = "adj" -> AdjClause(Ev) [] OTHER -> "ok"
           IN verdict' = (IF c = "ok" THEN "run" ELSE "rejected") /\ why' = (IF c = "ok" THEN why ELSE c)
        /\ l' = l + 1 /\ UNCHANGED tid
Finish == verdict = "run" /\ Done /\ verdict' = "accepted" /\ UNCHANGED <<tid, l, why>>
TInit == tid \in 1..Len(Traces) /\ l = 1 /\ verdict = "run" /\ why = ""
TNext == Step \/ Finish
Report == (verdict # "run") => PrintT(<<"VERDICT", tid, verdict, l - 1, why>>)
=============================================================================

-------------------------------- MODULE Pos --------------------------------
(***************************************************************************)
(* The (line, column) monoid of token_store.Position.                      *)
(* A size <<l, c>> means: the text contains l newlines and c characters    *)
(* after the last one.  PAdd is Position.__iadd__.                         *)
(***************************************************************************)
EXTENDS Naturals, Sequences

PZero == <<0, 0>>
PAdd(a, b) == IF b[1] > 0 THEN <<a[1] + b[1], b[2]>> ELSE <<a[1], a[2] + b[2]>>

\* left fold of sizes: the position just after the last token of `szs`
RECURSIVE PSum(_)
PSum(szs) == IF szs = <<>> THEN PZero
             ELSE PAdd(PSum(SubSeq(szs, 1, Len(szs) - 1)), szs[Len(szs)])

\* position of the first character of the i-th element (1-based)
PosOf(szs, i) == PSum(SubSeq(szs, 1, i - 1))

IsSize(p) == p \in Nat \X Nat
=============================================================================

----------------------------- MODULE TokenCodec -----------------------------
(***************************************************************************)
(* Value <-> raw text codecs of the string-like token types (C12), over    *)
(* CHARACTER CLASSES.  A string is a sequence of class symbols:            *)
(*   "p" plain character        "s" space           ";" semicolon          *)
(*   "q" double quote           "b" backslash       "n" a letter that is   *)
(*   an escape code (n t r f b) "L" line feed       "CL" CR LF             *)
(*   "CCL" CR CR LF             "x" exotic separator (FF, NEL, U+2028 ...) *)
(* Transcribed: EscapedString.escape/unescape (non-aggressive),            *)
(* BlockComment._format_value/_parse_value/_splitlines,                    *)
(* InlineComment._format_value/_parse_value.                               *)
(* TLC checks the round-trip laws for every class string up to MaxLen and  *)
(* the token state machine [value, indent, raw] under every assignment     *)
(* sequence; every string is also emitted for replay on the real classes.  *)
(***************************************************************************)
EXTENDS Naturals, Sequences, TLC, Json

CONSTANTS Alphabet, MaxLen, Kinds, Indents, Depth

IsEol(c) == c \in {"L", "CL", "CCL"}

(* ---- EscapedString ---- *)
RECURSIVE Escape(_)
Escape(v) == IF v = <<>> THEN <<>>
             ELSE (IF Head(v) \in {"q", "b"} THEN <<"b", Head(v)>> ELSE <<Head(v)>>) \o Escape(Tail(v))
\* unescape: backslash + c  ->  c, except escape-code letters which become a control character ("ctl")
RECURSIVE Unescape(_)
Unescape(r) == IF r = <<>> THEN <<>>
               ELSE IF Head(r) = "b" /\ Len(r) >= 2
                    THEN (IF r[2] = "n" THEN <<"ctl">>
                          ELSE IF r[2] = "L" THEN <<"b", "L">>      \* the pattern's dot does not match a line feed: kept as it is
                          ELSE <<r[2]>>) \o Unescape(SubSeq(r, 3, Len(r)))
               ELSE <<Head(r)>> \o Unescape(Tail(r))
EscRaw(v) == <<"q">> \o Escape(v) \o <<"q">>
EscParse(r) == Unescape(SubSeq(r, 2, Len(r) - 1))
\* the lexer's view: inside the quotes every quote is preceded by an odd number of backslashes
RECURSIVE NoBareQuote(_, _)
NoBareQuote(body, odd) == IF body = <<>> THEN ~odd
                          ELSE IF Head(body) = "b" THEN NoBareQuote(Tail(body), ~odd)
                          ELSE IF Head(body) = "q" THEN odd /\ NoBareQuote(Tail(body), FALSE)
                          ELSE NoBareQuote(Tail(body), FALSE)

(* ---- BlockComment ---- *)
\* _splitlines: split after every line end, keeping it; a trailing empty line if the text ends with one
RECURSIVE SplitLines(_, _)
SplitLines(v, cur) == IF v = <<>> THEN <<cur>>
                      ELSE IF IsEol(Head(v)) THEN <<Append(cur, Head(v))>> \o SplitLines(Tail(v), <<>>)
                      ELSE SplitLines(Tail(v), Append(cur, Head(v)))
Lines(v) == SplitLines(v, <<>>)
StripEol(line) == IF line # <<>> /\ IsEol(line[Len(line)]) THEN SubSeq(line, 1, Len(line) - 1) ELSE line
RECURSIVE Concat(_)
Concat(ls) == IF ls = <<>> THEN <<>> ELSE Head(ls) \o Concat(Tail(ls))

BCFormat(indent, v) ==
    Concat([k \in 1..Len(Lines(v)) |->
              LET line == Lines(v)[k] IN
              IF StripEol(line) # <<>> THEN indent \o <<";", "s">> \o line ELSE indent \o <<";">> \o line])

\* split one raw line at its first ";" : <<indent part, rest>>
FirstSemi(line) == CHOOSE i \in 1..Len(line) : line[i] = ";" /\ \A j \in 1..i - 1 : line[j] # ";"
HasSemi(line) == \E i \in 1..Len(line) : line[i] = ";"
BCParse(raw) ==
    LET ls == Lines(raw)
        rests == [k \in 1..Len(ls) |-> SubSeq(ls[k], FirstSemi(ls[k]) + 1, Len(ls[k]))]
        spaced == \A k \in 1..Len(ls) : StripEol(rests[k]) = <<>> \/ rests[k][1] = "s"
        vals == [k \in 1..Len(ls) |-> IF spaced /\ rests[k] # <<>> /\ rests[k][1] = "s" THEN Tail(rests[k]) ELSE rests[k]]
    IN [indent |-> SubSeq(ls[1], 1, FirstSemi(ls[1]) - 1), value |-> Concat(vals)]
BCParsable(raw) == \A k \in 1..Len(Lines(raw)) : HasSemi(Lines(raw)[k])

(* ---- InlineComment ---- *)
ICFormat(v) == IF v = <<>> THEN <<";">> ELSE <<";", "s">> \o v
RECURSIVE LStrip(_)
LStrip(s) == IF s # <<>> /\ Head(s) = "s" THEN LStrip(Tail(s)) ELSE s
ICParse(raw) == LStrip(Tail(raw))

(* ---- the token as a state machine ---- *)
VARIABLES kind, value, indent, raw, steps, hist
vars == <<kind, value, indent, raw, steps, hist>>

Strings == UNION {[1..n -> Alphabet] : n \in 0..MaxLen}
\* domains (what the statement quantifies over): comments may contain CR only inside a line end;
\* inline comments contain no line break
InDomain(k, v) == CASE k = "inline" -> \A i \in 1..Len(v) : ~IsEol(v[i])
                    [] OTHER -> TRUE

Format(k, i, v) == CASE k = "string" -> EscRaw(v) [] k = "block" -> BCFormat(i, v) [] k = "inline" -> ICFormat(v)
ParseV(k, r) == CASE k = "string" -> EscParse(r) [] k = "block" -> BCParse(r).value [] k = "inline" -> ICParse(r)

Init == /\ kind \in Kinds /\ value \in Strings /\ InDomain(kind, value)
        /\ indent \in (IF kind = "block" THEN Indents ELSE {<<>>})
        /\ raw = Format(kind, indent, value) /\ steps = 0
        /\ hist = <<[op |-> "from_value", value |-> value, indent |-> indent, raw |-> Format(kind, indent, value)]>>

SetValue(v) == /\ steps < Depth /\ InDomain(kind, v) /\ v # value
               /\ value' = v /\ raw' = Format(kind, indent, v) /\ steps' = steps + 1
               /\ hist' = Append(hist, [op |-> "value", value |-> v, indent |-> indent, raw |-> Format(kind, indent, v)])
               /\ UNCHANGED <<kind, indent>>
SetIndent(i) == /\ steps < Depth /\ kind = "block" /\ i # indent
                /\ indent' = i /\ raw' = Format(kind, i, value) /\ steps' = steps + 1
                /\ hist' = Append(hist, [op |-> "indent", value |-> value, indent |-> i, raw |-> Format(kind, i, value)])
                /\ UNCHANGED <<kind, value>>
\* raw_text = the canonical lexeme of another value (other lexemes are exercised by the harness)
SetRaw(v, i) == /\ steps < Depth /\ InDomain(kind, v)
                /\ raw' = Format(kind, i, v) /\ value' = ParseV(kind, Format(kind, i, v))
                /\ indent' = (IF kind = "block" THEN BCParse(Format(kind, i, v)).indent ELSE indent)
                /\ steps' = steps + 1
                /\ hist' = Append(hist, [op |-> "raw", value |-> ParseV(kind, Format(kind, i, v)),
                                         indent |-> (IF kind = "block" THEN BCParse(Format(kind, i, v)).indent ELSE indent),
                                         raw |-> Format(kind, i, v)])
                /\ UNCHANGED kind

\* raw_text = ANY lexeme of the string terminal: quotes around a body in which every quote is escaped (the harness
\* requires the real lexer to take each of them for one string token with the value computed here)
SetRawLexeme(body) ==
    /\ steps < Depth /\ kind = "string" /\ NoBareQuote(body, FALSE)
    /\ raw' = <<"q">> \o body \o <<"q">> /\ value' = EscParse(<<"q">> \o body \o <<"q">>)
    /\ steps' = steps + 1
    /\ hist' = Append(hist, [op |-> "rawlex", value |-> EscParse(<<"q">> \o body \o <<"q">>), indent |-> indent,
                             raw |-> <<"q">> \o body \o <<"q">>])
    /\ UNCHANGED <<kind, indent>>

Next == \/ \E body \in Strings : SetRawLexeme(body)
        \/ \E v \in Strings : SetValue(v)
        \/ \E i \in Indents : SetIndent(i)
        \/ \E v \in Strings : \E i \in (IF kind = "block" THEN Indents ELSE {<<>>}) : SetRaw(v, i)

(* ---- laws (C12 at design level) ---- *)
\* value and raw text describe each other
Agree == CASE kind = "string" -> EscParse(raw) = value /\ NoBareQuote(SubSeq(raw, 2, Len(raw) - 1), FALSE)
           [] kind = "block" -> BCParsable(raw) /\ BCParse(raw) = [indent |-> indent, value |-> value]
           [] kind = "inline" -> ICParse(raw) = value \/ (value # <<>> /\ Head(value) = "s")   \* leading blanks: see LeadingBlankLoss
\* the one place where the inline codec is lossy: a value starting with a blank
LeadingBlankLoss == kind = "inline" /\ value # <<>> /\ Head(value) = "s" => ICParse(raw) # value

Emit == (steps = Depth) => PrintT(<<"TRACE", ToJson([kind |-> kind, steps |-> hist])>>)
=============================================================================

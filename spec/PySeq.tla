------------------------------- MODULE PySeq -------------------------------
(***************************************************************************)
(* Python list / range / slice semantics as TLA+ operators.                *)
(* Indices are Python's (0-based, negative = from the end); sequences are  *)
(* TLA+ sequences (1-based).  NoneV stands for Python's None in a slice.   *)
(* These operators are bound to CPython itself by harness/checks/pyseq.py: *)
(* every (n, start, stop, step) in the bounded domain is evaluated by TLC  *)
(* and by the interpreter and compared.                                    *)
(***************************************************************************)
EXTENDS Naturals, Integers, Sequences

NoneV == 99

\* ---- integer index ------------------------------------------------------
NormIndex(i, n) == IF i < 0 THEN i + n ELSE i
ValidIndex(i, n) == NormIndex(i, n) >= 0 /\ NormIndex(i, n) < n

\* ---- slice.indices(n) ---------------------------------------------------
SliceStep(sl) == IF sl[3] = NoneV THEN 1 ELSE sl[3]

SliceStart(sl, n) ==
    LET step == SliceStep(sl)  s == sl[1] IN
    IF s = NoneV THEN (IF step < 0 THEN n - 1 ELSE 0)
    ELSE IF s < 0 THEN (IF s + n < 0 THEN (IF step < 0 THEN -1 ELSE 0) ELSE s + n)
    ELSE IF s >= n THEN (IF step < 0 THEN n - 1 ELSE n)
    ELSE s

SliceStop(sl, n) ==
    LET step == SliceStep(sl)  s == sl[2] IN
    IF s = NoneV THEN (IF step < 0 THEN -1 ELSE n)
    ELSE IF s < 0 THEN (IF s + n < 0 THEN (IF step < 0 THEN -1 ELSE 0) ELSE s + n)
    ELSE IF s >= n THEN (IF step < 0 THEN n - 1 ELSE n)
    ELSE s

\* the indices range(n)[start:stop:step] denotes, as a sequence of 0-based indices
RECURSIVE RangeFrom(_, _, _)
RangeFrom(a, b, step) ==
    IF (step > 0 /\ a >= b) \/ (step < 0 /\ a <= b) THEN <<>>
    ELSE <<a>> \o RangeFrom(a + step, b, step)

SliceRange(sl, n) == RangeFrom(SliceStart(sl, n), SliceStop(sl, n), SliceStep(sl))

\* ---- list operations ------------------------------------------------------
RemoveAt(s, p) == SubSeq(s, 1, p - 1) \o SubSeq(s, p + 1, Len(s))        \* p is 1-based
InsertAt(s, p, xs) == SubSeq(s, 1, p - 1) \o xs \o SubSeq(s, p, Len(s))  \* before 1-based p

\* list.insert(i, x)
PyInsertPos(i, n) == IF i < 0 THEN (IF i + n < 0 THEN 0 ELSE i + n) ELSE (IF i > n THEN n ELSE i)
PyInsert(s, i, x) == InsertAt(s, PyInsertPos(i, Len(s)) + 1, <<x>>)

\* list.pop(i) / del s[i] / s[i] = x  (caller checks ValidIndex)
PyDelItem(s, i) == RemoveAt(s, NormIndex(i, Len(s)) + 1)
PySetItem(s, i, x) == [s EXCEPT ![NormIndex(i, Len(s)) + 1] = x]

InRange(r, k) == \E j \in 1..Len(r) : r[j] = k
\* del s[slice]
PyDelSlice(s, sl) ==
    LET r == SliceRange(sl, Len(s))
        RECURSIVE Keep(_)
        Keep(k) == IF k > Len(s) THEN <<>>
                   ELSE (IF InRange(r, k - 1) THEN <<>> ELSE <<s[k]>>) \o Keep(k + 1)
    IN Keep(1)

\* s[slice] = xs ; for step = 1 any length, else lengths must match (ValueError otherwise)
PySetSliceOK(s, sl, xs) == SliceStep(sl) = 1 \/ Len(SliceRange(sl, Len(s))) = Len(xs)
PySetSlice(s, sl, xs) ==
    LET n == Len(s)  a == SliceStart(sl, n)  b0 == SliceStop(sl, n)
        b == IF b0 < a THEN a ELSE b0
    IN IF SliceStep(sl) = 1
       THEN SubSeq(s, 1, a) \o xs \o SubSeq(s, b + 1, n)
       ELSE LET r == SliceRange(sl, n)
            IN [k \in 1..n |-> IF InRange(r, k - 1)
                               THEN xs[CHOOSE j \in 1..Len(r) : r[j] = k - 1] ELSE s[k]]

Reverse(s) == [i \in 1..Len(s) |-> s[Len(s) - i + 1]]
=============================================================================

#!/usr/bin/env python3
"""Regenerates /verif/MANIFEST.json from the table below (kept in one place so it is always valid)."""
import json, os
HERE = os.path.dirname(os.path.abspath(__file__))
VERIF = os.path.dirname(HERE)
BASE = ("cd /repo && /venv/bin/python -m pytest -ra -q -p no:cacheprovider --timeout=900 "
        "--continue-on-collection-errors")

CLAIMED = {
    'C18': dict(
        text="Indent.tla states the indentation rule (siblings' shared indentation, else parent indentation followed by indent_by; raw items keep theirs; comments take the owner line's; nothing existing changes) as a state machine over parents (entries, postings at 2/4/tab), existing meta layouts, indent_by strings and the operations value insertion, raw append, indent_by change, parent indent change, clear, comment setters; TLC enumerates every sequence up to the depth and each is replayed on real entries and postings comparing the created item's / comment's indentation, all existing lines, and the nesting after re-parse.",
        note="Non-uniform existing indentation only requires 'one of the siblings''. Layouts the parser rejects are outside the input space.",
        technique="TLA+ Indent rule (TLC) replayed on real entries and postings",
        ref="§6 C18"),
    'C12': dict(
        text="TokenCodec.tla defines the lexeme language of the string terminal (every lexeme must be lexed by the real lexer as one string with the specified value) and transcribes the string-like codecs (EscapedString escape/unescape, BlockComment format/parse/line splitting, InlineComment) over character classes; TLC checks the round-trip laws for every class string up to the bound and the token state machine [value, indent, raw] under every value / indent / raw_text assignment sequence; every string (3 concrete representatives per class incl. astral characters, FF/NEL/U+2028, CR LF / CR CR LF) is replayed on the real classes: value read-back, raw text lexed back by the real lexer as exactly one token of the type with the value, host document round trip, from_raw_text verbatim. Dates, plain-notation decimals and the simple token types are covered by shape lists checked against the lexer.",
        note="Small scope over character classes (strings <= 3-4 classes); one lossy case (inline comment value starting with a blank) is a recorded finding.",
        technique="TLA+ TokenCodec laws (TLC) + replay on the real token classes and lexer",
        ref="§6 C12"),
    'C15': dict(
        text="Construct.tla makes every from_value argument combination a state (schemas extracted from inspect.signature: per class every subset of optional/list arguments, and every value selector of each argument with the others present); each is built with the real constructor and checked: printed text accepted by parse() for the class and printing back, content of the parsed model equal to the constructed one, arguments read back from both, well-formed self-contained tree, equal to its deep copy, and assembled into a File that parses back to the same content.",
        note="Value selectors are representatives (strings needing escapes, negative/zero/tiny numbers, early dates, multi-line comments, custom value runs needing disambiguation).",
        technique="TLA+ Construct argument-space enumeration (TLC) + construction / re-parse comparison",
        ref="§6 C15"),
    'C17': dict(
        text="Spacing.tla defines, over a token row of kinds zero-width / blank / newline / other, the run a spacing accessor denotes and what its setter may change (exactly that run, replaced by fresh whitespace tokens of the assigned length, everything else identical in identity and order, non-empty values read back); get / set executions on every model and token with accessors of Layout.tla documents (both sides, sampled strings over space, tab, LF, CRLF, both attribution modes, load factor rotated so runs straddle block boundaries) are recorded and validated by TLC; neighbours sharing a pure blank gap (documents with blank / whitespace-only lines in both line-end conventions; orphan blank tokens of any class count as blanks) must both read the whole text between them; the tree must stay well formed and a later edit through a neighbour must still work.",
        note="Documents of <= 2-3 lines (+ sampled longer), 2-4 strings per model and side.",
        technique="TLC trace validation (Spacing.tla) of recorded accessor executions",
        ref="§6 C17"),
    'C11': dict(
        text="Docs.tla states the rules for stores and copies (a deep copy is a new store with disjoint tokens whose text is the span's text, a complete tree, equal both ways; an edit through one store leaves every other store's text and token identities untouched); comments inserted through the API, released and claimed by the neighbouring field are copied at every step; copy.deepcopy of every model at every depth of Layout.tla documents - in both attribution modes and after hand-back-and-forth claim sequences that move placeholders - and of the repeated-field wrappers themselves, followed by edits on the copy and on the original and by inserting a copy, is recorded and validated by TLC.",
        note="Documents of <= 2-3 (quick) / 4 lines; edits: token text changes, meta append/pop, spacing.",
        technique="TLC trace validation (Docs.tla) of recorded deepcopy / edit executions",
        ref="§2.7, §6 C11"),
    'C20': dict(
        text="Docs.tla defines Eq(a,b) = same type, same text, same structure; comparisons are recorded - parse twice, model vs deep copy, model vs copy after exactly one perturbation (every token's text incl. trivia, each optional slot removed, a repeated item removed, a comment unclaimed), different objects of one document that print the same text (a wrapper and the only child filling it, equal siblings), a document vs its one-line extensions, same text with different token type - and TLC checks that == is symmetric and equals Eq, that comparing changes nothing, and that equal tokens hash equal (also after value edits).",
        note="Structure is projected by the harness (classes, filled slots, list shapes, comment ownership); indent_by is not perturbed.",
        technique="TLC trace validation (Docs.tla Eq) of recorded comparisons",
        ref="§2.7, §6 C20"),
    'C04': dict(
        text="Attribution calls (claim/unclaim leading, trailing, interleaving, auto-claim) on Layout.tla documents - every single call, auto twice, unclaim/claim pairs, random sequences and hand-back-and-forth sequences between all possible owners of each comment - are recorded and TLC validates every event against CommentOwnership.tla, whose first clauses are that the visible token row and the printed text never change; reads (every property, view index/slice/iteration, ==, hash, deepcopy, print on every reachable model) are executed on every document with the visible token row compared before and after.",
        note="Documents of <= 3-4 lines in both parse modes; mutator methods are not treated as non-edits.",
        technique="TLC trace validation (CommentOwnership.tla) of recorded attribution calls + read sweep on Layout.tla documents",
        ref="§2.6, §6 C04"),
    'C14': dict(
        text="CommentOwnership.tla is the ownership transition system (at most one owner, claimed flag iff owned, each call may only move the comments it names between unowned and its own place, auto-claim only fills, leaves none unowned at the root and is idempotent, unclaim+claim restores, a deep copy taken in any attribution state carries that state's owners and flags); recorded executions of all attribution calls on Layout.tla documents are validated by TLC. Layout.tla's Rule states the documented order (leading of the model directly below in the same indentation class, else trailing of a model ending directly above, else standalone) for the unambiguous comment groups and is compared with the default attribution of the real parser; parse(default) is compared with parse(off)+auto-claim.",
        note="Documents of <= 4-5 lines; ambiguous comment groups (indented comment outside any body, unindented comment between a header and its body, mixed-indent groups) get the invariants but not the order oracle. One deviation class is a recorded finding.",
        technique="TLC trace validation (CommentOwnership.tla) + TLA+ Rule oracle from Layout.tla against the real attribution",
        ref="§2.6, §6 C14"),
    'C13': dict(
        text="NumExpr.tla transcribes the concrete syntax tree of number expressions and the parenthesisation helpers; TLC proves over exact rationals that the value of every result equals the arithmetic result for all operator chains (depth 2-3, plain / in-place / reflected / unary, int / Decimal / expression operands) from 11 initial shapes (the expression itself as an operand included), and for literals inside the expression assigned in place through their own token after every node's value has been read; every chain is replayed on real NumberExpr objects, free-standing and attached in postings, balances and meta values: value, independent left-to-right Decimal evaluation of the printed text, re-parse, operands and their documents unchanged for non-in-place forms, document frame for in-place forms.",
        note="Structure over exact rationals in the specification; decimal accuracy only by comparison with an independent evaluator. Division by zero excluded.",
        technique="TLA+ NumExpr value invariant (TLC) + chain replay on the real operators",
        ref="§6 C13"),
    'C16': dict(
        text="Editor.tla models a recursive / single-file editing session over a disk: include graphs (by name, *.bean, **/*.bean, dangling), BFS reachability, body operations (edit by appending, edit of one token in place with the same extent, edit-and-revert, delete key, add key, add empty file, add a file two missing directory levels deep, take an entry out and put it back under another spelling of the same path); half of the sessions live in a directory whose name contains glob metacharacters, normal and raising exit, with the expected final disk in every behaviour; TLC checks reachability invariants and enumerates all sessions; each is replayed on the real Editor in a temporary directory comparing bytes, existence, mtime (not rewritten), mapping keys and parse count (each file once).",
        note="3 (quick) / 4 (thorough) files in a 3-level directory tree; 5 root spellings; LF / CRLF / mixed / no final newline.",
        technique="TLA+ Editor session model (TLC) replayed on real temporary directories",
        ref="§6 C16"),
    'C02': dict(
        text="Every token of every Layout.tla document is assigned replacement values/raw texts (per-kind classes: same width, wider, narrower, adding/removing line breaks, non-canonical spellings) singly and in sequences; each assignment is one recorded event with the full observation battery, and TLC validates every trace against TokenSeqTrace.tla: row identity/order and length unchanged, every other token keeps its text, the assigned token carries exactly the assigned text, refused assignments are stutters. The same assignments are also made through the owning model's value property (incl. the empty string), where the one token may be replaced by one new token at the same position, and inside Editor.edit_file sessions on documents with and without a final newline, where the file afterwards must be the input with exactly that span replaced.",
        note="Documents of <= 3-4 lines (<= 48 tokens), a few replacement representatives per token kind, block size rotated over 2,3,4,1000 and adversarial block shapes (largest next to smallest legal block).",
        technique="TLC trace validation (TokenSeqTrace.tla) of recorded token assignments on Layout.tla documents",
        ref="§6 C02"),
    'C09': dict(
        text="CostSpec.tla holds the record-of-optionals model and an implementation-shaped transcription of the three cost setters over concrete syntax forms; TLC enumerates every assignment sequence (depth 2-3) from every initial form (both brace kinds, every main component shape incl. split forms, date/label/merge layouts) and each is replayed on a real posting: rejection class, read-back of all six properties, read-back after print/re-parse, text outside the cost, tree. TxnStrings / generic value properties are added by their modules; MetaValue.tla (the typed union behind MetaItem.value / pushmeta / meta[key]: four simplified kinds updated in place, five preserved kinds, absent) is enumerated by TLC (all assignment sequences of depth 2-3 over 10 kinds x 2 values x 2 routes x plain/model form) and replayed on five host layouts.",
        note="Two abstract values per number/currency/date/label (one of the numbers is zero). Deviations of the transcribed algorithm from the record model are listed in the evidence; 4 failing edges are recorded as known findings.",
        technique="TLA+ CostSpec refinement edges (TLC) replayed on the real cost setters",
        ref="§2.5, §6 C09"),
    'C01': dict(
        text="TLC enumerates every document of Layout.tla (all sequences of structural line classes up to N lines, single-line deviations, LF/CRLF, final line end) together with the grammar's nesting automaton; each is rendered and parsed by the real parser in both attribution modes and print/round-trip, store concatenation and every sub-model's slice are compared with the input; PostLex.tla (mark insertion state machine, invariants checked by TLC) is replayed into the real PostLex class. One character of each of 43 special classes (BOM, NBSP, zero-width, bidi, NEL/LS/PS/VT/FF, NUL, bare CR, astral, combining, escapes, lone surrogate, ...) is inserted at the start, inside and end of every token of base documents; accepted texts must print back unchanged; every sub-model slice is parsed again as its own target, also with blanks / a line end at its very edges (the store must still spell the whole input).",
        note="Small scope: <= 4 (quick) / 5 (thorough) lines over 12 line classes with rotating concrete directives; characters inside lexemes are representatives plus one character per special class at three positions per token (the regex lexer is exercised, not modelled).",
        technique="TLA+ Layout enumeration + PostLex state machine (TLC), replayed on the real parser",
        ref="§2.8, §6 C01"),
    'C10': dict(
        text="RepList.tla specifies one repeated field and all views onto it with Python list / ordered-dict semantics (PySeq.tla); TLC checks the design invariants and enumerates every call through every view (inherited mixin operations incl. popitem) with every index/slice spelling (depth 1) and reduced menus (depth 2-3); each behaviour is replayed on 10 repeated-field families of the real library (load factor rotated) and every view is compared with the specification after every call, including the Python read protocol (len, every index, slices, in, keys/values/items, first-match lookup). The operations inherited from collections.abc (+=, reverse, setdefault, update; iteration both ways, index, count, get) are part of the model. RepImpl.tla - the wrappers' token placement and the views' bisect index arithmetic transcribed statement by statement - is checked by TLC against the canonical rendering and the recomputed filters, each repaired deviation is reproduced as a TLC counterexample, and its behaviours are replayed on the real wrappers with the specification variable rawIdx compared to the private _raw_indexes of every registered view. Membership tests on keys() / values() / items(), iteration both ways, index / count and `x.view += batch` through the attribute are part of the read / write protocol. After node-level and value-level slot edits (Slots.tla, incl. whole repeated fields replaced) every cached derived view must show what the printed document shows.",
        note="Exhaustive within the constants in evidence.replist_runs; lists of <= 3 initial items, batches <= 2-3.",
        technique="TLA+ RepList/PySeq (TLC) + behaviour replay on the real views",
        ref="§2.3, §6 C10"),
    'C03': dict(
        text="RepList.tla behaviours replayed on canonical and non-canonical host documents of 10 repeated-field families: printed text = the specification's rendering Doc(raw) on canonical hosts; frame conditions on every host (tokens outside the parent identical in identity/order/text, siblings keep their tokens, only item tokens and separator tokens appear or disappear, no token object at two places, the surviving items are exactly the specified ones). Slots.tla (schemas of 34 classes extracted reflectively, 157 slots incl. whole repeated fields) replayed on full, minimal and compact (no blanks) documents: node-level and value-level set / clear / replace / same-value writes with presence, sibling identity and token-level frame checks.",
        note="Lists of <= 3 initial items, batches <= 2-3, slot histories of depth 1-2.",
        technique="TLA+ RepList rendering + frame conditions, replayed on real documents",
        ref="§2.3, §6 C03"),
    'C06': dict(
        text="After every step of RepList.tla, Slots.tla, CostSpec.tla, MetaValue.tla, NumExpr.tla (arithmetic inside documents; the value a node reports is content) behaviours and of composed random histories (while no syntax-breaking call was made) the printed document is re-parsed and compared: content of the re-parsed tree = content of the in-memory tree = the specification's state; every view must show the same in memory and after re-parse.",
        note="Syntax-preserving edits only (values from the lexical domain, donors with fitting indent); comment attribution aside.",
        technique="TLA+ RepList behaviours replayed, print/re-parse three-way comparison",
        ref="§6 C06"),
    'C05': dict(
        text="Tree!WellFormed (Tree.tla; the Python transliteration is cross-checked against TLC on sound and deliberately corrupted dumps of real trees in every run) is evaluated on the real tree after every call of: NumExpr.tla behaviours on a posting's number (in-place arithmetic moves operand subtrees into the document), RepList.tla behaviours (all list operations through every view, edits through inserted children, popped nodes self-contained), Slots.tla behaviours (optional / required / repeated slots, attached donors), MetaValue.tla behaviours, spacing assignments, comment attribution sequences (every call, hand-back-and-forth), and composed random histories interleaving all edit kinds incl. deep-copy-and-insert.",
        note="Small documents; composed histories are a seeded random walk (600 / 6000 walks).",
        technique="TLA+ RepList behaviours replayed, WellFormed invariant on the real tree at every step",
        ref="§2.1, §6 C05"),
    'C19': dict(
        text="Every specification module generates its refused calls as stuttering actions and each is replayed on the real code - the exception class must match and text, token identity row, views and tree must be unchanged: RepList.tla (out-of-range index, missing key, size-mismatched slices, attached donors from the same / another document at every batch position incl. extended slices), Slots.tla (attached donors in every optional / required / repeated slot, incl. nodes whose boundary tokens merely look like their store's), TxnStrings.tla (attached nodes handed to raw_payee / raw_narration), CostSpec.tla (illegal cost combinations; attached nodes handed to the raw cost setters from every reached form), one free node at two positions of a batch, operands already consumed by an in-place operator, values a token type cannot format, NumExpr.tla (in-place operators with an attached operand), TokenSeqTrace (raw texts the token type cannot represent, directly and after an accepted edit), CommentOwnership (claims of already claimed / absent comments, unsatisfiable selective claim / unclaim requests), spacing token runs that live elsewhere.",
        note="Refusal sites of repeated fields; other sites (raw_text, cost, arithmetic) are added by their own modules.",
        technique="TLA+ refusal-as-stutter actions (TLC) replayed on the real code",
        ref="§6 C19"),
    'C07': dict(
        text="TLC exhaustively checks BlockStore.tla - an implementation-shaped transcription of TokenStore (blocks with stored indices, handles, size caches) - against the abstract sequence for every call sequence within small constants; every enumerated behaviour (empty stores and empty batches included) is replayed on the real class (block layout compared as drift); recorded executions are validated by TLC against TokenSeqTrace.tla: a randomized store workload, the repository's own 1586 non-benchmark tests run in place under a recorder plugin with the load factor patched to 2-5, and composed model-level histories; the default load factor is exercised on 2.1k-4.5k-token stores.",
        note="Exhaustive within the constants in evidence.design_checks (load factors 2-5, <= 12 live tokens, depth 2-3); larger stores and the default load factor by recorded traces / randomized workload. Trusted: TLC, the Python projection (list(store), getters).",
        technique="TLA+ BlockStore refinement (TLC) + behaviour replay + TLC trace validation incl. the repository's own test suite",
        ref="§2.2, §6 C07"),
    'C08': dict(
        text="Same machinery as C07 with token sizes (newline / column classes) and TokenStore.update as first-class actions: TLC checks the cached block size and last-newline index in every reachable state; behaviours are replayed comparing get_position / get_index of every token with the (line, column) computed from the concatenated text; store traces (workload, repository test suite, composed histories) and document-level assignments (value and raw_text on every token of small documents) are validated by TLC against TokenSeqTrace.tla with positions folded over the ACTUAL texts; the Position monoid laws behind the block caches are proved unboundedly by tlapm.",
        note="Exhaustive within constants (load factors 2-3, <= 7 tokens, 4 size classes, depth 2-3); traces on larger stores. Position oracle is computed from the actual token texts.",
        technique="TLA+ BlockStore size-cache invariants (TLC) + behaviour replay + TLC trace validation (store and document level)",
        ref="§2.2, §6 C08"),
}
PENDING_REASON = "check not built yet in this round (planned per DESIGN.md §6); no claim is made"

def main():
    props = [json.loads(l)['id'] for l in open(os.path.join(VERIF, 'properties.jsonl'))]
    checks = []
    for p in props:
        if p not in CLAIMED:
            continue
        c = CLAIMED[p]
        checks.append({
            'property_id': p,
            'quick_cmd': f'/venv/bin/python harness/run.py --property {p} --tier quick',
            'thorough_cmd': f'/venv/bin/python harness/run.py --property {p} --tier thorough',
            'evidence_file': f'/verif/evidence/{p}.json',
            'replay_cmd_template': f'/venv/bin/python harness/run.py --property {p} --replay {{path}}',
            'engine': 'tlc+replay',
            'level_claimed': {'category': 'model_checking', 'text': c['text'], 'design_ref': c['ref']},
            'level_note': c['note'],
            'technique': c['technique'],
        })
    m = {
        'version': 1,
        'setup_cmd': '/venv/bin/python harness/setup.py',
        'hooks': {
            'guard': 'AUTOBEAN_VERIF_TRACE',
            'enable': 'no source hooks: the harness wraps the public API and TokenStore methods from outside (harness/vlib/storerec.py); checks import the package from /repo with PYTHONPATH',
            'baseline_off_cmd': BASE,
            'source_commits': [],
            'add_only': True,
        },
        'engines': [{'name': 'tlc+replay', 'path': 'harness/run.py', 'serves_properties': sorted(CLAIMED),
                     'kind_free_text': 'TLA+ specifications in spec/ checked by TLC; behaviours replayed into the real code and recorded traces validated by TLC'}],
        'checks': checks,
        'not_applicable': [{'property_id': p, 'reason': PENDING_REASON} for p in props if p not in CLAIMED],
        'notes': 'See DESIGN.md. known_findings.jsonl lists recorded findings and fix commits.',
    }
    with open(os.path.join(VERIF, 'MANIFEST.json'), 'w') as f:
        json.dump(m, f, indent=1)
    print('claimed', len(checks), 'pending', len(m['not_applicable']))

if __name__ == '__main__':
    main()

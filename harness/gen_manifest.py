#!/usr/bin/env python3
"""Regenerates /verif/MANIFEST.json from the table below (kept in one place so it is always valid)."""
import json, os
HERE = os.path.dirname(os.path.abspath(__file__))
VERIF = os.path.dirname(HERE)
BASE = ("cd /repo && /venv/bin/python -m pytest -ra -q -p no:cacheprovider --timeout=900 "
        "--continue-on-collection-errors")

CLAIMED = {
    'C07': dict(
        text="TLC exhaustively checks an implementation-shaped TLA+ transcription of TokenStore (blocks, stored indices, handles, size caches) against the abstract sequence for every call sequence within small constants; every enumerated behaviour is replayed on the real class and all observations compared after every call; recorded executions of the real class on larger stores are validated by TLC against the abstract trace spec.",
        note="Exhaustive within the constants in evidence.design_checks (load factors 2-5, <= 12 live tokens, depth 2-3); larger stores and the default load factor by recorded traces / randomized workload. Trusted: TLC, the Python projection (list(store), getters).",
        technique="TLA+ BlockStore refinement (TLC) + behaviour replay + TLC trace validation",
        ref="§2.2, §6 C07"),
    'C08': dict(
        text="Same machinery as C07 with token sizes (newline / column classes) and TokenStore.update as first-class actions: TLC checks the cached block size and last-newline index equal the fold over tokens in every reachable state; behaviours are replayed on the real store comparing get_position/get_index of every token with the (line, column) computed from the concatenated text.",
        note="Exhaustive within constants (load factors 2-3, <= 7 tokens, 4 size classes, depth 2-3); traces on larger stores. Position oracle is computed from the actual token texts.",
        technique="TLA+ BlockStore size-cache invariants (TLC) + behaviour replay + TLC trace validation",
        ref="§2.2, §6 C08"),
}
PENDING_REASON = "check not built yet in this round (planned per DESIGN.md §6); no claim is made"

def main():
    props = [json.loads(l)['id'] for l in open(os.path.join(VERIF, 'properties.jsonl'))]
    checks = []
    for p in props:
        if p not in CLAIMED:
            continue
        c = CLAIMED[p]
        checks.append({
            'property_id': p,
            'quick_cmd': f'/venv/bin/python harness/run.py --property {p} --tier quick',
            'thorough_cmd': f'/venv/bin/python harness/run.py --property {p} --tier thorough',
            'evidence_file': f'/verif/evidence/{p}.json',
            'replay_cmd_template': f'/venv/bin/python harness/run.py --property {p} --replay {{path}}',
            'engine': 'tlc+replay',
            'level_claimed': {'category': 'model_checking', 'text': c['text'], 'design_ref': c['ref']},
            'level_note': c['note'],
            'technique': c['technique'],
        })
    m = {
        'version': 1,
        'setup_cmd': '/venv/bin/python harness/setup.py',
        'hooks': {
            'guard': 'AUTOBEAN_VERIF_TRACE',
            'enable': 'no source hooks: the harness wraps the public API and TokenStore methods from outside (harness/vlib/storerec.py); checks import the package from /repo with PYTHONPATH',
            'baseline_off_cmd': BASE,
            'source_commits': [],
            'add_only': True,
        },
        'engines': [{'name': 'tlc+replay', 'path': 'harness/run.py', 'serves_properties': sorted(CLAIMED),
                     'kind_free_text': 'TLA+ specifications in spec/ checked by TLC; behaviours replayed into the real code and recorded traces validated by TLC'}],
        'checks': checks,
        'not_applicable': [{'property_id': p, 'reason': PENDING_REASON} for p in props if p not in CLAIMED],
        'notes': 'See DESIGN.md. known_findings.jsonl lists recorded findings and fix commits.',
    }
    with open(os.path.join(VERIF, 'MANIFEST.json'), 'w') as f:
        json.dump(m, f, indent=1)
    print('claimed', len(checks), 'pending', len(m['not_applicable']))

if __name__ == '__main__':
    main()

"""B3: validate recorded traces of the real TokenStore against TokenSeqTrace.tla with TLC."""
from __future__ import annotations

import json
import os
import tempfile
from typing import Any

from . import tlc


def validate_store_traces(traces: list[dict], *, batch: int = 1500, timeout: float = 900) -> dict:
    """Returns {'accepted': n, 'rejected': [(trace index, step, clause)], 'events': n, 'tlc_states': n,
    'tlc_transitions': n, 'errors': [...]}."""
    out: dict[str, Any] = {'accepted': 0, 'rejected': [], 'events': 0, 'tlc_states': 0, 'tlc_transitions': 0,
                           'errors': []}
    for start in range(0, len(traces), batch):
        part = traces[start:start + batch]
        fd, path = tempfile.mkstemp(prefix='verif_traces_', suffix='.json')
        try:
            with os.fdopen(fd, 'w') as f:
                json.dump(part, f)
            verdicts: dict[int, tuple] = {}

            def on_print(p: list) -> None:
                if p[0] == 'VERDICT':
                    verdicts[p[1]] = (p[2], p[3], p[4])

            r = tlc.run('TokenSeqTrace', {}, init='TInit', next='TNext', constraints=['Report'],
                        workers=1, env={'TRACE_FILE': path}, timeout=timeout, on_print=on_print,
                        print_prefixes=('VERDICT',))
            out['tlc_states'] += r.distinct
            out['tlc_transitions'] += r.generated
            if not r.ok:
                out['errors'].append(r.violated or r.tail[-800:])
            for k, tr in enumerate(part, 1):
                out['events'] += len(tr['events'])
                v = verdicts.get(k)
                if v is None:
                    out['errors'].append(f'no verdict for trace {start + k - 1}')
                elif v[0] == 'accepted':
                    out['accepted'] += 1
                else:
                    out['rejected'].append((start + k - 1, v[1], v[2]))
        finally:
            try:
                os.unlink(path)
            except OSError:
                pass
    return out

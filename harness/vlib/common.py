"""Shared plumbing: repo import, evidence files, known findings, violation reporting."""
from __future__ import annotations

import hashlib
import json
import os
import sys
import time
from typing import Any, Iterable, Optional

VERIF = os.path.dirname(os.path.dirname(os.path.dirname(os.path.abspath(__file__))))
REPO = os.environ.get('VERIF_REPO', '/repo')
# (the two overrides exist for trying the checks on scratch trees without touching the committed evidence)
EVIDENCE_DIR = os.environ.get('VERIF_EVIDENCE_DIR') or os.path.join(VERIF, 'evidence')
REPLAY_DIR = os.environ.get('VERIF_REPLAY_DIR') or os.path.join(VERIF, 'replays')
FINDINGS_FILE = os.path.join(VERIF, 'known_findings.jsonl')
GUARD = 'AUTOBEAN_VERIF_TRACE'


def import_repo() -> None:
    """Make `autobean_refactor` importable from the current working tree of /repo."""
    if REPO not in sys.path:
        sys.path.insert(0, REPO)
    os.environ.setdefault('PYTHONHASHSEED', '0')


def seed() -> int:
    try:
        return int(os.environ.get('VERIF_SEED', '0'))
    except ValueError:
        return 0


class Findings:
    """Known findings: genuine defects recorded rather than repaired.

    Each line of known_findings.jsonl is either
      {"status": "open",  "property": "C09", "fingerprint": "...", "what": "..."}
      {"status": "fixed", "property": "C07", "commit": "...", "what": "..."}
    A violation is suppressed only if its fingerprint equals an *open* entry of the same
    property.  The file is never written at run time.
    """

    def __init__(self) -> None:
        self.open: dict[tuple[str, str], str] = {}
        self.fixed: list[dict] = []
        if os.path.exists(FINDINGS_FILE):
            with open(FINDINGS_FILE) as f:
                for line in f:
                    line = line.strip()
                    if not line or line.startswith('#'):
                        continue
                    rec = json.loads(line)
                    if rec.get('status') == 'open':
                        self.open[(rec['property'], rec['fingerprint'])] = rec.get('what', '')
                    else:
                        self.fixed.append(rec)

    def is_known(self, prop: str, fingerprint: str) -> bool:
        return (prop, fingerprint) in self.open


class Reporter:
    """Collects violations of one property in one run and produces exit status + evidence."""

    def __init__(self, prop: str, tier: str) -> None:
        self.prop = prop
        self.tier = tier
        self.t0 = time.time()
        self.findings = Findings()
        self.violations: list[dict] = []      # unknown → exit 1
        self.known_seen: dict[str, int] = {}  # fingerprint → count
        self.known_example: dict[str, Any] = {}
        self.machinery_errors: list[str] = []
        self.cov: dict[str, Any] = {}
        self.assumptions: list[str] = []

    # ---- verdicts -----------------------------------------------------
    def violation(self, fingerprint: str, detail: dict) -> None:
        """Report a disagreement with the property; `fingerprint` identifies the failing
        input/call site/history class so that a recorded finding suppresses only itself."""
        if self.findings.is_known(self.prop, fingerprint):
            self.known_seen[fingerprint] = self.known_seen.get(fingerprint, 0) + 1
            self.known_example.setdefault(fingerprint, detail)
            return
        if len(self.violations) < 200:
            self.violations.append({'fingerprint': fingerprint, **detail})
        else:
            self.violations.append({'fingerprint': fingerprint})

    def machinery_error(self, msg: str) -> None:
        self.machinery_errors.append(msg)

    # ---- output -------------------------------------------------------
    def _write_replay(self, v: dict, k: int) -> str:
        os.makedirs(REPLAY_DIR, exist_ok=True)
        h = hashlib.sha1(json.dumps(v, sort_keys=True, default=str).encode()).hexdigest()[:10]
        path = os.path.join(REPLAY_DIR, f'{self.prop}_{h}.json')
        with open(path, 'w') as f:
            json.dump({'property': self.prop, 'tier': self.tier, 'seed': seed(), 'violation': v},
                      f, indent=1, default=str)
        return path

    def finish(self, *, level: str = 'model_checking', extra: Optional[dict] = None) -> int:
        wall = time.time() - self.t0
        distinct_fps = sorted({v['fingerprint'] for v in self.violations})
        cov = dict(self.cov)
        cov.setdefault('samples', [])
        cov['known_findings_seen'] = self.known_seen
        cov['violation_fingerprints'] = distinct_fps[:50]
        if extra:
            cov.update(extra)
        ev = {
            'property_id': self.prop,
            'tier': self.tier,
            'seed': seed(),
            'level': level,
            'coverage': cov,
            'assumptions': self.assumptions,
            'wall_s': round(wall, 2),
            'violations': len(self.violations),
        }
        os.makedirs(EVIDENCE_DIR, exist_ok=True)
        with open(os.path.join(EVIDENCE_DIR, f'{self.prop}.json'), 'w') as f:
            json.dump(ev, f, indent=1, default=str)
        for fp, n in sorted(self.known_seen.items()):
            what = self.findings.open.get((self.prop, fp), '')
            print(f'KNOWN-FINDING: property={self.prop} {fp} ({n} occurrence(s)) {what}')
        if self.machinery_errors:
            for m in self.machinery_errors[:20]:
                print(f'MACHINERY-ERROR: {m}')
            return 2
        if self.violations:
            seen = set()
            k = 0
            for v in self.violations:
                if v['fingerprint'] in seen or len(v) == 1:
                    continue
                seen.add(v['fingerprint'])
                path = self._write_replay(v, k)
                k += 1
                print(f'VIOLATION property={self.prop} replay={path}')
                print(f'  fingerprint: {v["fingerprint"]}')
                if k >= 25:
                    break
            print(f'{len(self.violations)} violating case(s), {len(distinct_fps)} distinct fingerprint(s)')
            return 1
        print(f'OK property={self.prop} tier={self.tier} wall={wall:.1f}s '
              + ' '.join(f'{k}={v}' for k, v in cov.items() if isinstance(v, (int, float)) and not isinstance(v, bool)))
        return 0


def chunked(xs: list, n: int) -> Iterable[list]:
    for i in range(0, len(xs), n):
        yield xs[i:i + n]


class Runaway(BaseException):
    """An implementation call that normally takes milliseconds did not return within the guard time.
    A BaseException: `except Exception` handlers (the harness's crash handlers, the implementation's own) do not
    swallow it, it unwinds to the worker's job wrapper (Guarded), which turns it into a verdict."""

    def __init__(self, msg: str, where: str = '?', stack: Optional[list] = None) -> None:
        super().__init__(msg)
        self.where = where
        self.stack = stack or []


import contextlib  # noqa: E402
import signal  # noqa: E402
import threading  # noqa: E402
import traceback  # noqa: E402

GUARD_SECONDS = float(os.environ.get('VERIF_CALL_GUARD', '60'))        # one call into the implementation
JOB_SECONDS = float(os.environ.get('VERIF_JOB_GUARD', '1800'))         # one pool job (normally seconds to a minute)


@contextlib.contextmanager
def guard(seconds: Optional[float] = None):
    """Bound a piece of work that calls into the implementation.  A change to the code under test can make a
    call loop forever (and eat memory); the check must then end with a verdict instead of hanging.  Only the main
    thread of a process can take the alarm; elsewhere the work runs unguarded.  Nested guards restore the outer
    deadline on exit."""
    seconds = GUARD_SECONDS if seconds is None else seconds
    if threading.current_thread() is not threading.main_thread():
        yield
        return

    def on_alarm(signum, frame):  # noqa: ANN001
        st = traceback.extract_stack(frame)
        inrepo = [f for f in st if os.path.abspath(f.filename).startswith(os.path.abspath(REPO) + os.sep)]
        where = f'{os.path.relpath(inrepo[-1].filename, REPO)}:{inrepo[-1].name}' if inrepo else 'harness'
        raise Runaway(f'did not return within {seconds:g} s', where,
                      [f'{f.filename}:{f.lineno} {f.name}' for f in st[-14:]])

    old_handler = signal.signal(signal.SIGALRM, on_alarm)
    old_left, _ = signal.setitimer(signal.ITIMER_REAL, seconds)
    t0 = time.time()
    try:
        yield
    finally:
        signal.setitimer(signal.ITIMER_REAL, 0)
        signal.signal(signal.SIGALRM, old_handler)
        if old_left:
            signal.setitimer(signal.ITIMER_REAL, max(0.01, old_left - (time.time() - t0)))


def raised_in_repo(e: BaseException) -> Optional[str]:
    """If the exception was raised by code of the implementation under test (not by the harness), 'file:function' of
    the raising frame.  A replay that dies in the implementation while it only READS the document (first/last
    token, index in the store, a property getter, printing) has met a document that is no longer observable: that is
    a verdict about the code, not a machinery failure."""
    tb = e.__traceback__
    last = None
    while tb is not None:
        last = tb
        tb = tb.tb_next
    if last is None:
        return None
    fn = os.path.abspath(last.tb_frame.f_code.co_filename)
    if fn.startswith(os.path.abspath(REPO) + os.sep):
        return f'{os.path.relpath(fn, REPO)}:{last.tb_frame.f_code.co_name}'
    return None


class Guarded:
    """Picklable wrapper of a pool job function: ('ok', result) or ('runaway', info)."""

    def __init__(self, fn: Any, seconds: Optional[float] = None) -> None:
        self.fn = fn
        self.seconds = seconds

    def __call__(self, arg: Any) -> tuple:
        t0 = time.time()
        try:
            with guard(JOB_SECONDS if self.seconds is None else self.seconds):
                return 'ok', self.fn(arg), time.time() - t0
        except Runaway as e:
            return 'runaway', {'what': f'a call into the implementation {e}; stuck in {e.where}', 'where': e.where,
                               'stack': e.stack, 'job': repr(arg)[:1500]}, time.time() - t0
        except Exception as e:  # noqa: BLE001
            # replays catch what the calls they make raise; an exception of the implementation that still escapes
            # a job was raised while the harness only read the document (see raised_in_repo)
            where = raised_in_repo(e)
            if not where:
                raise
            return 'unobservable', {'what': f'the document could not be read any more: {type(e).__name__}: {e} (raised in {where})',
                                    'where': where, 'stack': traceback.format_exception(e)[-6:], 'job': repr(arg)[:1500]}, time.time() - t0


def gmap(pool: Any, rep: 'Reporter', fn: Any, jobs: Any, seconds: Optional[float] = None) -> Iterable[Any]:
    """pool.imap_unordered with every job guarded.  A job that does not come back is a verdict (the call that hangs
    is named), and the remaining jobs are abandoned: the caller's `with Pool` block terminates the workers."""
    worst = rep.cov.get('slowest_pool_job_s', 0.0)
    for status, val, dt in pool.imap_unordered(Guarded(fn, seconds), jobs):
        worst = max(worst, round(dt, 1))
        rep.cov['slowest_pool_job_s'] = worst
        if status == 'ok':
            yield val
        elif status == 'unobservable':
            rep.violation(f'{rep.prop}/unobservable/{val["where"]}', val)       # (the other jobs go on)
        else:
            rep.violation(f'{rep.prop}/call-did-not-return/{val["where"]}', val)
            return

"""Observation battery on a real TokenStore against a plain-list reference (C07 / C08)."""
from __future__ import annotations

from typing import Any, Optional


def text_for_size(lines: int, cols: int, variant: int = 0) -> str:
    """A text whose token_store size is (lines, cols)."""
    if lines == 0:
        return 'x' * cols
    pre = 'ab' if variant % 2 else ''
    cr = '\r' if variant % 3 == 2 else ''
    return pre + (cr + '\n') * lines + 'y' * cols


def text_size(text: str) -> tuple[int, int]:
    return text.count('\n'), len(text) - text.rfind('\n') - 1


def abs_positions(texts: list[str]) -> list[tuple[int, int]]:
    """(line, column) of the first character of every token in the concatenation."""
    out = []
    line = col = 0
    for t in texts:
        out.append((line, col))
        n = t.count('\n')
        if n:
            line += n
            col = len(t) - t.rfind('\n') - 1
        else:
            col += len(t)
    return out


def observe(store: Any, ref: list, removed: list, *, pairs: bool = True) -> list[tuple[str, str]]:
    """Compare every observation the property names with the plain list `ref` (token objects).
    Returns a list of (kind, message); kind in
    {'seq','len','first','last','index','prev','next','iter','detached','position','crash'}."""
    bad: list[tuple[str, str]] = []
    try:
        got = list(store)
    except Exception as e:  # noqa: BLE001
        return [('crash', f'iter: {type(e).__name__}: {e}')]
    if len(got) != len(ref) or any(a is not b for a, b in zip(got, ref)):
        bad.append(('seq', f'list(store) has {len(got)} tokens, expected {len(ref)}'))
        return bad
    try:
        if len(store) != len(ref):
            bad.append(('len', f'len {len(store)} != {len(ref)}'))
        f, l = store.get_first(), store.get_last()
        if (f is not (ref[0] if ref else None)):
            bad.append(('first', 'get_first'))
        if (l is not (ref[-1] if ref else None)):
            bad.append(('last', 'get_last'))
        pos = abs_positions([t.raw_text for t in ref])
        for i, t in enumerate(ref):
            if store.get_index(t) != i:
                bad.append(('index', f'get_index({i}) = {store.get_index(t)}'))
            p = store.get_position(t)
            if (p.line, p.column) != pos[i]:
                bad.append(('position', f'token {i}: reported {(p.line, p.column)} expected {pos[i]}'))
            pv = store.get_prev(t)
            if pv is not (ref[i - 1] if i else None):
                bad.append(('prev', f'get_prev({i})'))
            nx = store.get_next(t)
            if nx is not (ref[i + 1] if i + 1 < len(ref) else None):
                bad.append(('next', f'get_next({i})'))
        if pairs:
            n = len(ref)
            rng = range(n) if n <= 10 else sorted({0, 1, n // 3, n // 2, n - 2, n - 1})
            for a in rng:
                for b in rng:
                    if b < a:
                        continue
                    sub = list(store.iter(ref[a], ref[b]))
                    if len(sub) != b - a + 1 or any(x is not y for x, y in zip(sub, ref[a:b + 1])):
                        bad.append(('iter', f'iter({a},{b})'))
        for t in removed:
            if t.store_handle is not None:
                bad.append(('detached', 'removed token still has a store handle'))
    except Exception as e:  # noqa: BLE001
        bad.append(('crash', f'{type(e).__name__}: {e}'))
    return bad


def layout(store: Any) -> Optional[dict]:
    """Hidden block layout (drift projection only; never a verdict)."""
    try:
        return {'lens': [len(b.tokens) for b in store._blocks], 'idx': [b.index for b in store._blocks]}
    except Exception:  # noqa: BLE001
        return None

"""B3 recorder: wraps the public mutators of the real TokenStore (from outside, no source
hooks) and logs one event per outermost call, at its return, with the observations made
right after it.  Used by the harness drivers and by the pytest plugin."""
from __future__ import annotations

import os
from typing import Any, Optional

from . import common

common.import_repo()
from autobean_refactor import token_store as ts  # noqa: E402

MAX_ROW = 48        # stores larger than this are not recorded (counted)
MAX_EVENTS = 30     # events per trace


def _size(text: str) -> list[int]:
    return [text.count('\n'), len(text) - text.rfind('\n') - 1]


class Recorder:
    def __init__(self) -> None:
        self.traces: list[dict] = []
        self._by_store: dict[int, dict] = {}
        self._keep: list[Any] = []          # keep stores alive so that id() stays unique
        self._depth = 0
        self._orig: dict[str, Any] = {}
        self.skipped_large = 0
        self._txt: dict[str, int] = {}
        self.events = 0

    # -- ids ---------------------------------------------------------------
    @staticmethod
    def _tid(tr: dict, tok: Any) -> int:
        if tok is None:
            return 0
        m = tr['_ids']
        k = id(tok)
        if k not in m:
            m[k] = len(m) + 1
            tr['_keep'].append(tok)
        return m[k]

    def _trace_for(self, store: Any) -> Optional[dict]:
        tr = self._by_store.get(id(store))
        if tr is None:
            row = list(store)
            if len(row) > MAX_ROW:
                self.skipped_large += 1
                self._by_store[id(store)] = {'dead': True}
                self._keep.append(store)
                return None
            tr = {'_ids': {}, '_keep': [], 'init': {}, 'events': [], 'dead': False,
                  'L': ts._LOAD_FACTOR}
            tr['init'] = {'ids': [self._tid(tr, t) for t in row]}
            self._by_store[id(store)] = tr
            self._keep.append(store)
            self.traces.append(tr)
        if tr.get('dead'):
            return None
        return tr

    def _observe(self, tr: dict, store: Any, ev: dict) -> None:
        try:
            row = list(store)
        except Exception as e:  # noqa: BLE001
            ev['obs_exc'] = type(e).__name__
            row = []
        if len(row) > MAX_ROW:
            tr['dead'] = True
            return
        ev['row'] = [self._tid(tr, t) for t in row]
        ev['szs'] = [_size(t.raw_text) for t in row]
        ev['txt'] = [self._txt.setdefault(t.raw_text, len(self._txt) + 1) for t in row]
        try:
            ev['len'] = len(store)
            ev['first'] = self._tid(tr, store.get_first())
            ev['last'] = self._tid(tr, store.get_last())
            ev['idx'] = [store.get_index(t) for t in row]
            ev['pos'] = [[p.line, p.column] for p in (store.get_position(t) for t in row)]
            ev['nxt'] = [self._tid(tr, store.get_next(t)) for t in row]
            ev['prv'] = [self._tid(tr, store.get_prev(t)) for t in row]
        except Exception as e:  # noqa: BLE001
            ev['obs_exc'] = type(e).__name__
            ev.setdefault('len', -1)
            ev.setdefault('first', -1)
            ev.setdefault('last', -1)
            n = len(row)
            ev.setdefault('idx', [-1] * n)
            ev.setdefault('pos', [[-1, -1]] * n)
            ev.setdefault('nxt', [-1] * n)
            ev.setdefault('prv', [-1] * n)
        tr['events'].append(ev)
        self.events += 1
        if len(tr['events']) >= MAX_EVENTS:
            tr['dead'] = True

    def assign(self, store: Any, tok: Any, fn: Any, expect_text: Optional[str] = None) -> Any:
        """Run fn() (a value / raw_text assignment through the model API on `tok`) as ONE event;
        the store-level calls underneath are not logged separately.  Returns the exception or None."""
        tr = self._trace_for(store)
        pos = 0
        for k, t in enumerate(store):
            if t is tok:
                pos = k + 1
                break
        self._depth += 1
        exc = None
        try:
            fn()
        except Exception as e:  # noqa: BLE001
            exc = e
        finally:
            self._depth -= 1
        if tr is not None:
            now = list(store)
            cur = now[pos - 1] if 0 < pos <= len(now) else tok
            self._observe(tr, store, {'op': 'assign', 'r': self._tid(tr, tok), 'e': 0, 'toks': [], 'apos': pos,
                                      'exc': type(exc).__name__ if exc else '',
                                      'newtxt': self._txt.setdefault((cur.raw_text if expect_text is None else expect_text) if not exc else tok.raw_text,
                                                                  len(self._txt) + 1)})
        return exc

    def observe(self, store: Any) -> None:
        """Explicit stuttering observation (after a model-level call)."""
        tr = self._trace_for(store)
        if tr is not None:
            self._observe(tr, store, {'op': 'observe', 'r': 0, 'e': 0, 'toks': [], 'exc': ''})

    # -- wrappers ----------------------------------------------------------
    def install(self) -> None:
        rec = self
        o_splice = ts.TokenStore.splice
        o_after = ts.TokenStore.insert_after
        o_upd = ts.Token._update_raw_text
        self._orig = {'splice': o_splice, 'insert_after': o_after, '_update_raw_text': o_upd}

        def splice(self: Any, tokens: Any, ref: Any, del_end: Any = None) -> None:
            if rec._depth:
                return o_splice(self, tokens, ref, del_end)
            tokens = list(tokens)
            tr = rec._trace_for(self)
            rec._depth += 1
            exc = ''
            try:
                return o_splice(self, tokens, ref, del_end)
            except BaseException as e:
                exc = type(e).__name__
                raise
            finally:
                rec._depth -= 1
                if tr is not None:
                    rec._observe(tr, self, {'op': 'splice', 'r': rec._tid(tr, ref), 'e': rec._tid(tr, del_end),
                                            'toks': [rec._tid(tr, t) for t in tokens], 'exc': exc})

        def insert_after(self: Any, ref: Any, tokens: Any) -> None:
            if rec._depth:
                return o_after(self, ref, tokens)
            tokens = list(tokens)
            tr = rec._trace_for(self)
            rec._depth += 1
            exc = ''
            try:
                return o_after(self, ref, tokens)
            except BaseException as e:
                exc = type(e).__name__
                raise
            finally:
                rec._depth -= 1
                if tr is not None:
                    rec._observe(tr, self, {'op': 'insert_after', 'r': rec._tid(tr, ref), 'e': 0,
                                            'toks': [rec._tid(tr, t) for t in tokens], 'exc': exc})

        def _update_raw_text(self: Any, value: str) -> None:
            store = self.store_handle.block.store if self.store_handle else None
            if rec._depth or store is None:
                return o_upd(self, value)
            tr = rec._trace_for(store)
            rec._depth += 1
            exc = ''
            try:
                return o_upd(self, value)
            except BaseException as e:
                exc = type(e).__name__
                raise
            finally:
                rec._depth -= 1
                if tr is not None:
                    rec._observe(tr, store, {'op': 'update', 'r': rec._tid(tr, self), 'e': 0, 'toks': [], 'exc': exc})

        ts.TokenStore.splice = splice                  # type: ignore[method-assign]
        ts.TokenStore.insert_after = insert_after      # type: ignore[method-assign]
        ts.Token._update_raw_text = _update_raw_text   # type: ignore[method-assign]

    def uninstall(self) -> None:
        if self._orig:
            ts.TokenStore.splice = self._orig['splice']
            ts.TokenStore.insert_after = self._orig['insert_after']
            ts.Token._update_raw_text = self._orig['_update_raw_text']
            self._orig = {}

    def export(self) -> list[dict]:
        return [{'init': t['init'], 'events': t['events'], 'L': t['L']}
                for t in self.traces if t.get('events')]

"""Reflective access to autobean_refactor models: children, well-formedness (Tree.tla's
WellFormed, transliterated), content projection (C06) and helpers shared by all document-level
checks.  Nothing here is a hand-written list of classes: fields are discovered through the
`internal.fields.field` descriptors of each class."""
from __future__ import annotations

import functools
import io
from typing import Any, Iterator, Optional

from . import common

common.import_repo()
from autobean_refactor import models, parser as parser_lib, printer  # noqa: E402
from autobean_refactor.models import base, internal  # noqa: E402
from autobean_refactor.models.internal import fields as fields_lib  # noqa: E402
from autobean_refactor.models.internal.repeated import Repeated  # noqa: E402
from autobean_refactor.models.internal.placeholder import Placeholder  # noqa: E402

_PARSER: Optional[parser_lib.Parser] = None


def get_parser() -> parser_lib.Parser:
    global _PARSER
    if _PARSER is None:
        _PARSER = parser_lib.Parser()
    return _PARSER


# optional callable applied to the token store of every freshly parsed model (checks.store_replay lays the store
# out in adversarial block shapes with it)
LAYOUT: Any = None


def parse(text: str, target: Any = None, **kw: Any) -> Any:
    m = get_parser().parse(text, target or models.File, **kw)
    if LAYOUT is not None:
        LAYOUT(m.token_store)
    return m


def text_of(model: Any) -> str:
    return printer.print_model(model, io.StringIO()).getvalue()


def store_text(store: Any) -> str:
    return ''.join(t.raw_text for t in store)


@functools.lru_cache(maxsize=None)
def field_descriptors(cls: type) -> tuple[tuple[str, Any], ...]:
    """(attribute name, descriptor) of every syntactic field of a tree model class."""
    out = []
    seen = set()
    for k in cls.__mro__:
        for name, v in vars(k).items():
            if name in seen:
                continue
            seen.add(name)
            if isinstance(v, fields_lib.field):
                out.append((name, v))
    return tuple(out)


def children(model: Any) -> list[tuple[str, Any]]:
    """Direct children (field name, child model) of a tree model, unordered."""
    if isinstance(model, Repeated):
        return [('placeholder', model.placeholder)] + [(f'items[{i}]', it) for i, it in enumerate(model.items)]
    if isinstance(model, base.RawTokenModel):
        return []
    out = []
    for name, d in field_descriptors(type(model)):
        v = d.__get__(model)
        if v is not None:
            out.append((name, v))
    # hand-written n-ary expression nodes (NumberAddExpr / NumberMulExpr)
    ops = getattr(model, '_raw_operands', None)
    if ops is not None:
        out += [(f'operands[{i}]', o) for i, o in enumerate(ops)]
        out += [(f'ops[{i}]', o) for i, o in enumerate(getattr(model, '_raw_ops', ()))]
    return out


def walk(model: Any, path: str = '') -> Iterator[tuple[str, Any]]:
    yield path, model
    for name, ch in children(model):
        yield from walk(ch, f'{path}.{name}' if path else name)


@functools.lru_cache(maxsize=None)
def _grammar_sets() -> tuple[frozenset, frozenset]:
    ignored = frozenset(parser_lib._IGNORED_TOKENS)
    return ignored, frozenset()


def is_significant(tok: Any) -> bool:
    """Terminal is neither %ignore'd nor `_`-prefixed (grammar-derived, not a hand list)."""
    ignored, _ = _grammar_sets()
    rule = getattr(tok, 'RULE', '')
    return rule not in ignored and not rule.startswith('_')


def _wf(root: Any, self_contained: bool) -> list[tuple[str, str]]:
    """Tree.tla!WellFormed on a real tree: list of (violated clause, message)."""
    bad: list[tuple[str, str]] = []
    store = root.token_store
    if store is None:
        return [('NoStore', 'root has no token store')]
    try:
        toks = list(store)
        order = {id(t): i for i, t in enumerate(toks)}
    except Exception as e:  # noqa: BLE001
        return [('NoStore', f'store iteration failed: {type(e).__name__}: {e}')]
    if len(order) != len(toks):
        bad.append(('StoreNoDup', 'a token object occurs twice in the store'))
    leaves: dict[int, int] = {}

    def span(m: Any, path: str) -> Optional[tuple[int, int]]:
        try:
            f, l = m.first_token, m.last_token
        except Exception as e:  # noqa: BLE001
            bad.append(('InStore', f'{path}: first/last_token raised {type(e).__name__}'))
            return None
        if id(f) not in order or id(l) not in order:
            bad.append(('InStore', f'{path}: first/last token not in the root store'))
            return None
        a, b = order[id(f)], order[id(l)]
        if a > b:
            bad.append(('SpanOrdered', f'{path}: first token after last token'))
        return a, b

    def rec(m: Any, path: str) -> Optional[tuple[int, int]]:
        if isinstance(m, base.RawTokenModel):
            leaves[id(m)] = leaves.get(id(m), 0) + 1
            if id(m) not in order:
                bad.append(('LeafInStore', f'{path}: leaf token {m!r} is not in the root store'))
                return None
            if m.token_store is not store:
                bad.append(('SameStore', f'{path}: leaf token belongs to another store'))
            return order[id(m)], order[id(m)]
        if m.token_store is not store:
            bad.append(('SameStore', f'{path}: {type(m).__name__} lives in another token store'))
        sp = span(m, path)
        spans = []
        for name, ch in children(m):
            s = rec(ch, f'{path}.{name}' if path else name)
            if s is not None:
                spans.append((s, name))
        if sp is not None:
            for s, name in spans:
                if s[0] < sp[0] or s[1] > sp[1]:
                    bad.append(('ChildrenNested', f'{path}.{name}: child span {s} outside parent span {sp}'))
        spans.sort()
        for (s1, n1), (s2, n2) in zip(spans, spans[1:]):
            if s2[0] <= s1[1]:
                bad.append(('SiblingsDisjoint', f'{path}: children {n1} {s1} and {n2} {s2} overlap'))
        return sp

    sp = rec(root, '')
    for k, n in leaves.items():
        if n > 1:
            bad.append(('LeafOwnedOnce', 'a token object is a leaf at two tree positions'))
            break
    if sp is not None:
        for i in range(sp[0], sp[1] + 1):
            t = toks[i]
            n = leaves.get(id(t), 0)
            if is_significant(t) and n != 1:
                bad.append(('SignificantOwned', f'significant token {t!r} at {i} is owned by {n} leaves'))
        if self_contained and (sp[0] != 0 or sp[1] != len(toks) - 1):
            bad.append(('SelfContained', f'not self-contained: span {sp} of a store of {len(toks)} tokens'))
    return bad


def wellformed(root: Any, *, self_contained: bool = False) -> list[str]:
    return [msg for _, msg in _wf(root, self_contained)]


def wellformed_tags(root: Any, *, self_contained: bool = False) -> list[str]:
    return sorted({tag for tag, _ in _wf(root, self_contained)})


def dump(root: Any) -> dict:
    """The tree as plain data for Tree.tla: tokens are 1..N (store order); a node is
    [leaf, same (lives in the root's store), tok / first / last (0 = not in the store), kids (node numbers)]."""
    store = root.token_store
    toks = list(store)
    order = {id(t): i + 1 for i, t in enumerate(toks)}
    nodes: list[dict] = []

    def rec(m: Any) -> int:
        k = len(nodes)
        nodes.append({})
        if isinstance(m, base.RawTokenModel):
            nodes[k] = {'leaf': True, 'same': m.token_store is store or id(m) not in order, 'tok': order.get(id(m), 0),
                        'first': order.get(id(m), 0), 'last': order.get(id(m), 0), 'kids': []}
            if id(m) in order and m.token_store is not store:
                nodes[k]['same'] = False
            return k + 1
        kids = [rec(ch) for _, ch in children(m)]
        try:
            f, l = order.get(id(m.first_token), 0), order.get(id(m.last_token), 0)
        except Exception:  # noqa: BLE001
            f = l = 0
        nodes[k] = {'leaf': False, 'same': m.token_store is store, 'tok': 0, 'first': f, 'last': l, 'kids': kids}
        return k + 1

    rec(root)
    return {'n': len(toks), 'sig': [bool(is_significant(t)) for t in toks], 'dup': len(order) != len(toks), 'nodes': nodes}


# ---------------------------------------------------------------------------
# Content projection (C06, C15): the nested structure of non-trivia leaves.

_ZERO_WIDTH = {'EOL', 'DEDENT_MARK', 'INDENT_MARK', 'PLACEHOLDER'}


def content(model: Any) -> Any:
    if model is None:
        return None
    if isinstance(model, models.BlockComment):
        return None
    if isinstance(model, base.RawTokenModel):
        if model.RULE in _ZERO_WIDTH:
            return None
        if isinstance(model, models.InlineComment):
            return ('INLINE_COMMENT', model.raw_text.rstrip(' \t'))
        return (model.RULE, model.raw_text)
    if isinstance(model, Repeated):
        return [content(it) for it in model.items if not isinstance(it, models.BlockComment)]
    out = []
    strings = []
    for name, d in field_descriptors(type(model)):
        v = d.__get__(model)
        if isinstance(v, models.BlockComment) or name in ('_leading_comment', '_trailing_comment'):
            continue
        if isinstance(model, models.Transaction) and name in ('_string0', '_string1', '_string2'):
            if v is not None:
                strings.append(content(v))
            continue
        c = content(v)
        if c is None and (v is None or isinstance(v, base.RawTokenModel)):
            if v is not None:      # zero-width mark
                continue
            if name == '_dedent_mark':
                continue
        out.append((name, c))
    if strings:
        out.append(('strings', strings))
    operands = getattr(model, '_raw_operands', None)
    if operands is not None:
        out.append(('operands', [content(o) for o in operands]))
        out.append(('ops', [content(o) for o in getattr(model, '_raw_ops', ())]))
    if type(model).__name__.startswith('Number') and hasattr(type(model), 'value'):
        # the arithmetic value a node reports is content too (it is computed from the operands, and must be
        # the value of the text that is printed)
        try:
            out.append(('value', str(model.value)))
        except Exception as e:  # noqa: BLE001
            out.append(('value', type(e).__name__))
    return (type(model).__name__, out)


def block_comments(model: Any) -> list[str]:
    store = model.token_store
    if store is None:
        return []
    return [t.raw_text for t in model.tokens if isinstance(t, models.BlockComment)]


def token_row(store: Any) -> list[tuple[int, str]]:
    return [(id(t), t.raw_text) for t in store]


def lexes_as(raw: str, rule: str) -> bool:
    """Does the grammar's terminal `rule` match exactly the whole of `raw` (lexer only, no model code)?"""
    import copy as _copy
    from lark import lexer as _lexer
    P = get_parser()
    try:
        conf = _copy.deepcopy(P._lark.parser.lexer_conf)
        conf.terminals = [conf.terminals_by_name[rule]]
        toks = list(_lexer.LexerThread.from_text(_lexer.BasicLexer(conf), raw).lex(None))
        return len(toks) == 1 and toks[0].type == rule and toks[0].value == raw
    except Exception:  # noqa: BLE001
        return False

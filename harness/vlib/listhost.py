"""Hosts for RepList.tla: every repeated field family of the library with its views, how to
build a normally parsed document holding a given abstract list, how to make donors, and how
to project real items back to the abstract (type, value) pairs."""
from __future__ import annotations

import datetime
import decimal
from typing import Any, Callable, Optional

from . import common, tree

common.import_repo()
from autobean_refactor import models  # noqa: E402

D = datetime.date(2000, 1, 1)


class Host:
    name = ''
    types: tuple[str, ...] = ()
    init_types: Optional[tuple[str, ...]] = None   # types a normally parsed document can hold standalone
    # view name -> (kind, tuple of types)
    views: dict[str, tuple[str, tuple[str, ...]]] = {}
    sepb = ''
    sep = ''
    # layouts: 0 is canonical (exact text oracle applies); others are non-canonical variants
    n_layouts = 1
    canonical = True          # layout 0 is rendered canonically (exact text oracle applies)
    skip_ops: tuple[str, ...] = ()   # operations not meaningful for this host (behaviours containing them are skipped)
    target: Any = None        # parse target (models.File by default)

    # ---- TLA+ constants -------------------------------------------------
    def tla_types(self) -> str:
        return '{' + ', '.join(f'"{t}"' for t in self.types) + '}'

    def tla_init_types(self) -> str:
        return '{' + ', '.join(f'"{t}"' for t in (self.init_types or self.types)) + '}'

    def tla_views(self) -> str:
        parts = []
        for v, (kind, tys) in self.views.items():
            parts.append(f'{v} |-> [types |-> {{{", ".join(chr(34) + t + chr(34) for t in tys)}}}, kind |-> "{kind}"]')
        return '[' + ', '.join(parts) + ']'

    # ---- to be provided -------------------------------------------------
    def item_text(self, ty: str, val: int, payload: Any = None) -> str:
        raise NotImplementedError

    def make(self, ty: str, val: int, payload: Any = None) -> Any:
        raise NotImplementedError

    def value(self, ty: str, val: int) -> Any:
        """Python value shown by string views / used as mapping key."""
        raise NotImplementedError

    def proj(self, node: Any) -> tuple[str, int]:
        raise NotImplementedError

    def wrap(self, body: str, layout: int) -> str:
        """Full document text around the rendered list `body`."""
        raise NotImplementedError

    def locate(self, file: Any) -> Any:
        raise NotImplementedError

    def view(self, parent: Any, name: str) -> Any:
        return getattr(parent, name)

    # ---- derived --------------------------------------------------------
    def render(self, items: list[tuple[str, int, Any]]) -> str:
        out = ''
        for k, (ty, val, payload) in enumerate(items):
            out += (self.sepb if k == 0 else self.sep) + self.item_text(ty, val, payload)
        return out

    def doc_text(self, items: list[tuple[str, int, Any]], layout: int) -> str:
        return self.wrap(self.render(items), layout)

    def mapval_payload(self, nv: int) -> Any:
        return nv

    def payload_value(self, payload: Any) -> Any:
        return payload

    def set_val(self, obj: Any, val: int) -> None:
        """Edit an item through the item object itself so that it denotes `val`."""
        ty, _ = self.proj(obj)
        target = self.make(ty, val, None)
        if isinstance(obj, models.BlockComment):
            obj.value = target.value
        elif isinstance(obj, models.MetaItem):
            obj.key = target.key
        elif isinstance(obj, (models.Open, models.Close, models.Posting)):
            obj.account = target.account
        elif isinstance(obj, models.Amount):
            obj.number = target.number
        else:
            obj.value = target.value


# ---------------------------------------------------------------------------
class Currencies(Host):
    name = 'open.currencies'
    types = ('Cur',)
    views = {'raw_currencies': ('raw', ('Cur',)), 'currencies': ('str', ('Cur',))}
    sepb, sep = ' ', ', '
    n_layouts = 3
    CODES = {1: 'AAA', 2: 'BBB', 3: 'CCC'}

    def item_text(self, ty, val, payload=None):
        return self.CODES[val]

    def make(self, ty, val, payload=None):
        return models.Currency.from_value(self.CODES[val])

    def value(self, ty, val):
        return self.CODES[val]

    def proj(self, node):
        return 'Cur', {v: k for k, v in self.CODES.items()}[node.value]

    def wrap(self, body, layout):
        if layout == 0:
            return f'2000-01-01 open Assets:Foo{body}\n'
        if layout == 1:
            return (f'; head\n2000-01-01 close Assets:Z\n\n2000-01-01 open Assets:Foo{body} "STRICT" ; note\n'
                    f'    kk: 1\n\n2000-01-02 close Assets:Foo\n')
        return f'2000-01-01 commodity USD\n2000-01-01 open Assets:Foo{body}   ; c\n2000-01-01 commodity EUR'

    def locate(self, file):
        return next(d for d in file.raw_directives if isinstance(d, models.Open))


class TagsLinks(Host):
    name = 'note.tags_links'
    types = ('Tag', 'Link')
    views = {'raw_tags_links': ('raw', ('Tag', 'Link')), 'tags': ('str', ('Tag',)), 'links': ('str', ('Link',))}
    sepb, sep = ' ', ' '
    n_layouts = 3

    def item_text(self, ty, val, payload=None):
        return ('#t' if ty == 'Tag' else '^l') + str(val)

    def make(self, ty, val, payload=None):
        return (models.Tag if ty == 'Tag' else models.Link).from_value(('t' if ty == 'Tag' else 'l') + str(val))

    def value(self, ty, val):
        return ('t' if ty == 'Tag' else 'l') + str(val)

    def proj(self, node):
        return ('Tag' if isinstance(node, models.Tag) else 'Link'), int(node.value[1:])

    def wrap(self, body, layout):
        if layout == 0:
            return f'2000-01-01 note Assets:Foo "x"{body}\n'
        if layout == 1:
            return f'2000-01-01 open Assets:Foo\n2000-01-01 document Assets:Foo "p"{body} ; c\n    kk: 1\n'
        return f'2000-01-01 * "payee" "narration"{body}\n    Assets:Foo  1 USD\n    Assets:Bar\n'

    def locate(self, file):
        return next(d for d in file.raw_directives if isinstance(d, (models.Note, models.Document, models.Transaction)))


class Meta(Host):
    """meta items (with interleaved standalone comments) of an entry."""
    name = 'open.meta'
    types = ('Meta', 'Comment')
    init_types = ('Meta',)
    views = {'raw_meta_with_comments': ('raw', ('Meta', 'Comment')),
             'raw_meta': ('map', ('Meta',)),
             'meta': ('mapval', ('Meta',))}
    sepb, sep = '\n', '\n'
    n_layouts = 3
    indent = '    '

    def item_text(self, ty, val, payload=None):
        if ty == 'Comment':
            return f'{self.indent}; c{val}'
        return f'{self.indent}k{val}: {self._ptext(payload)}'

    @staticmethod
    def _ptext(payload):
        return f'"v{payload}"' if payload is not None else '"v0"'

    def make(self, ty, val, payload=None):
        if ty == 'Comment':
            return models.BlockComment.from_value(f'c{val}', indent=self.indent)
        return models.MetaItem.from_value(f'k{val}', f'v{payload}' if payload is not None else 'v0', indent=self.indent)

    def value(self, ty, val):
        return f'k{val}'

    def mapval_payload(self, nv):
        return nv

    def payload_value(self, payload):
        return f'v{payload}' if payload is not None else 'v0'

    def proj(self, node):
        if isinstance(node, models.BlockComment):
            return 'Comment', int(node.value[1:])
        return 'Meta', int(node.key[1:])

    def wrap(self, body, layout):
        if layout == 0:
            return f'2000-01-01 open Assets:Foo{body}\n'
        if layout == 1:
            return f'2000-01-01 close Assets:Z\n2000-01-01 open Assets:Foo USD ; ic{body}\n\n2000-01-02 close Assets:Foo\n'
        return f'; lead\n2000-01-01 open Assets:Foo{body}\n2000-01-02 close Assets:Foo'

    def locate(self, file):
        return next(d for d in file.raw_directives if isinstance(d, models.Open))


class PostingMeta(Meta):
    name = 'posting.meta'
    indent = '        '
    n_layouts = 2

    def wrap(self, body, layout):
        if layout == 0:
            return f'2000-01-01 *\n    Assets:Foo  1 USD{body}\n'
        return f'2000-01-01 * "x"\n    mm: 1\n    Assets:Foo  1 USD{body}\n    Assets:Bar\n2000-01-02 close Assets:Foo\n'

    def locate(self, file):
        txn = next(d for d in file.raw_directives if isinstance(d, models.Transaction))
        return txn.raw_postings[0]


class TxnMeta(Meta):
    name = 'txn.meta'
    n_layouts = 2

    def wrap(self, body, layout):
        if layout == 0:
            return f'2000-01-01 *{body}\n'
        return f'2000-01-01 * "x"{body}\n    Assets:Foo  1 USD\n    Assets:Bar\n'

    def locate(self, file):
        return next(d for d in file.raw_directives if isinstance(d, models.Transaction))


class Directives(Host):
    name = 'file.directives'
    types = ('Open', 'Close', 'Comment')
    views = {'raw_directives_with_comments': ('raw', ('Open', 'Close', 'Comment')),
             'raw_directives': ('node', ('Open', 'Close')),
             'directives': ('node', ('Open', 'Close'))}
    sepb, sep = '', '\n\n'
    n_layouts = 1

    def item_text(self, ty, val, payload=None):
        if ty == 'Comment':
            return f'; c{val}'
        return f'2000-01-01 {ty.lower()} Assets:A{val}'

    def make(self, ty, val, payload=None):
        if ty == 'Comment':
            return models.BlockComment.from_value(f'c{val}')
        cls = models.Open if ty == 'Open' else models.Close
        return cls.from_value(D, f'Assets:A{val}')

    def value(self, ty, val):
        return val

    def proj(self, node):
        if isinstance(node, models.BlockComment):
            return 'Comment', int(node.value[1:])
        return type(node).__name__, int(node.account[-1])

    def wrap(self, body, layout):
        return body

    def locate(self, file):
        return file


class Postings(Host):
    name = 'txn.postings'
    types = ('Posting', 'Comment')
    init_types = ('Posting',)
    views = {'raw_postings_with_comments': ('raw', ('Posting', 'Comment')),
             'raw_postings': ('node', ('Posting',)),
             'postings': ('node', ('Posting',))}
    sepb, sep = '\n', '\n'
    n_layouts = 2

    def item_text(self, ty, val, payload=None):
        if ty == 'Comment':
            return f'    ; c{val}'
        return f'    Assets:A{val} 1.00 USD'

    def make(self, ty, val, payload=None):
        if ty == 'Comment':
            return models.BlockComment.from_value(f'c{val}', indent='    ')
        return models.Posting.from_value(f'Assets:A{val}', decimal.Decimal('1.00'), 'USD')

    def value(self, ty, val):
        return val

    def proj(self, node):
        if isinstance(node, models.BlockComment):
            return 'Comment', int(node.value[1:])
        return 'Posting', int(node.account[-1])

    def wrap(self, body, layout):
        if layout == 0:
            return f'2000-01-01 *{body}\n'
        return f'2000-01-01 open Assets:A1\n\n2000-01-01 * "p" "n" #t\n    kk: 1{body}\n\n2000-01-02 close Assets:A1\n'

    def locate(self, file):
        return next(d for d in file.raw_directives if isinstance(d, models.Transaction))

class CostComponents(Host):
    """components of a unit cost: {amount, date, label} (only the raw view exists)."""
    name = 'cost.components'
    types = ('Amt', 'Date', 'Str')
    views = {'raw_components': ('raw', ('Amt', 'Date', 'Str'))}
    sepb, sep = '', ', '
    n_layouts = 2

    def item_text(self, ty, val, payload=None):
        return {'Amt': f'{val} EUR', 'Date': f'2000-01-0{val}', 'Str': f'"l{val}"'}[ty]

    def make(self, ty, val, payload=None):
        if ty == 'Amt':
            return models.Amount.from_value(decimal.Decimal(val), 'EUR')
        if ty == 'Date':
            return models.Date.from_value(datetime.date(2000, 1, val))
        return models.EscapedString.from_value(f'l{val}')

    def value(self, ty, val):
        return val

    def proj(self, node):
        if isinstance(node, models.Amount):
            return 'Amt', int(node.number)
        if isinstance(node, models.Date):
            return 'Date', node.value.day
        return 'Str', int(node.value[1:])

    def wrap(self, body, layout):
        if layout == 0:
            return '2000-01-01 *\n    Assets:A  1 USD {' + body + '}\n'
        return '2000-01-01 * "p"\n    Assets:Z  -1 USD\n    Assets:A  1 USD {' + body + '} @ 2 CAD ; ic\n        pk: 1\n'

    def locate(self, file):
        txn = file.raw_directives[0]
        return next(p.cost.raw_cost for p in txn.raw_postings if p.cost is not None)


class CustomValues(Host):
    """values of a custom directive: strings and numbers (negative numbers next to numbers need care)."""
    name = 'custom.values'
    types = ('Str', 'Num')
    views = {'raw_values': ('raw', ('Str', 'Num')), 'values': ('str', ('Str', 'Num'))}
    sepb, sep = ' ', ' '
    n_layouts = 1
    canonical = False       # (-2) in the parsed text vs -2 written by the API: spelling is not prescribed
    skip_ops = ('remove', 'discard')   # node equality is textual: '(-2)' and '-2' are different nodes

    def item_text(self, ty, val, payload=None):
        if ty == 'Str':
            return f'"s{val}"'
        return '1' if val == 1 else '(-2)'

    def make(self, ty, val, payload=None):
        if ty == 'Str':
            return models.EscapedString.from_value(f's{val}')
        return models.NumberExpr.from_value(decimal.Decimal(1 if val == 1 else -2))

    def value(self, ty, val):
        return f's{val}' if ty == 'Str' else decimal.Decimal(1 if val == 1 else -2)

    def proj(self, node):
        if isinstance(node, models.EscapedString):
            return 'Str', int(node.value[1:])
        return 'Num', 1 if node.value == 1 else (2 if node.value == -2 else -1)

    def wrap(self, body, layout):
        return f'2000-01-01 custom "t"{body}\n    kk: 1\n'

    def locate(self, file):
        return file.raw_directives[0]


class CustomValueKinds(CustomValues):
    """the other kinds a custom directive's value list holds: dates and booleans (simplified to Python values by the
    `values` view), accounts and amounts (kept as models)."""
    name = 'custom.value-kinds'
    types = ('Date', 'Bool', 'Acct', 'Amt')
    inplace_types = ('Date', 'Bool')
    views = {'raw_values': ('raw', ('Date', 'Bool', 'Acct', 'Amt')), 'values': ('str', ('Date', 'Bool', 'Acct', 'Amt'))}
    skip_ops = ('remove', 'discard')

    def item_text(self, ty, val, payload=None):
        return {'Date': f'2001-01-0{val}', 'Bool': 'TRUE' if val == 1 else 'FALSE', 'Acct': f'Assets:V{val}', 'Amt': f'{val} USD'}[ty]

    def make(self, ty, val, payload=None):
        if ty == 'Date':
            return models.Date.from_value(datetime.date(2001, 1, val))
        if ty == 'Bool':
            return models.Bool.from_value(val == 1)
        if ty == 'Acct':
            return models.Account.from_value(f'Assets:V{val}')
        return models.Amount.from_value(decimal.Decimal(val), 'USD')

    def value(self, ty, val):
        if ty == 'Date':
            return datetime.date(2001, 1, val)
        if ty == 'Bool':
            return val == 1
        return self.make(ty, val)

    def proj(self, node):
        if isinstance(node, models.Date):
            return 'Date', node.value.day
        if isinstance(node, models.Bool):
            return 'Bool', 1 if node.value else 2
        if isinstance(node, models.Account):
            return 'Acct', int(node.value[-1])
        return 'Amt', int(node.raw_number.value)


HOSTS: dict[str, Host] = {h.name: h for h in [Currencies(), TagsLinks(), Meta(), PostingMeta(), TxnMeta(), Directives(), Postings(),
                                              CostComponents(), CustomValues(), CustomValueKinds()]}

"""Concrete documents from Layout.tla states: each structural line class is rendered to text
(several concrete directives per class, selected by `flavor`), the per-line deviation and the
global line-end convention are applied."""
from __future__ import annotations

import json
from typing import Any, Iterator, Optional

from . import common, tlc

ALL_KINDS = ('dir', 'txn', 'meta', 'post', 'pmeta', 'com', 'icom', 'dcom', 'blank', 'ws', 'head', 'opt')

DIRS = [
    '2000-01-01 open Assets:A USD, EUR "STRICT"',
    '2000-01-01 close Assets:A',
    '2000-01-01 commodity USD',
    '2000-01-01 pad Assets:A Equity:B',
    '2000-01-01 event "location" "Paris"',
    '2000-01-01 query "name" "SELECT 1"',
    '2000-01-01 price USD 1.5 EUR',
    '2000-01-01 note Assets:A "text" #tag ^link',
    '2000-01-01 document Assets:A "/path" ^link #tag',
    '2000-01-01 balance Assets:A 10 + 2 ~ 0.1 USD',
    '2000-01-01 custom "budget" "x" 1 TRUE 2000-02-02 Assets:A 3 USD',
    '2000-01-01 open Assets:A',
]
TXNS = [
    '2000-01-01 * "payee" "narration" #tag ^link',
    '2000-01-01 txn "narration"',
    '2000-01-01 !',
    '2000-01-01 * "multi\nline" #t',
]
OPTS = [
    'option "title" "x"',
    'include "other.bean"',
    'plugin "mod" "cfg"',
    'pushtag #foo',
    'poptag #foo',
    'pushmeta kk: 1',
    'popmeta kk:',
    'plugin "mod"',
]
METAS = ['kk: 1', 'kk: "str"', 'kk:', 'kk: Assets:A', 'kk: 2000-01-01', 'kk: 1 + 2 USD', 'kk: TRUE', 'kk: #tag', 'kk: NULL', 'kk: USD']
POSTS = [
    'Assets:A  1 USD',
    'Assets:A',
    '! Assets:A  -1.5 USD {2 EUR, 2000-01-01, "lbl"} @ 3 CAD',
    'Assets:A  (1 + 2) * 3 USD {{4 # 5 EUR, *}} @@ 6 CAD',
    'Assets:A  1 USD @',
    'Assets:A  USD {}',
]
HEADS = ['* heading', '** sub', ': x', '# hash', '! bang']
COMS = ['; c', ';c', '; c1\n; c2', ';']


def line_text(kind: str, flavor: int, j: int) -> str:
    f = flavor + j
    if kind == 'dir':
        return DIRS[f % len(DIRS)]
    if kind == 'txn':
        return TXNS[f % len(TXNS)]
    if kind == 'opt':
        return OPTS[f % len(OPTS)]
    if kind == 'meta':
        return '    ' + METAS[f % len(METAS)]
    if kind == 'pmeta':
        return '        ' + METAS[(f + 1) % len(METAS)]
    if kind == 'post':
        return '    ' + POSTS[f % len(POSTS)]
    if kind == 'com':
        return COMS[f % len(COMS)]
    if kind == 'icom':
        return '\n'.join('    ' + l for l in COMS[f % len(COMS)].split('\n'))
    if kind == 'dcom':
        return '\n'.join('        ' + l for l in COMS[f % len(COMS)].split('\n'))
    if kind == 'blank':
        return ''
    if kind == 'ws':
        return '  ' if f % 2 == 0 else '\t'
    if kind == 'head':
        return HEADS[f % len(HEADS)]
    raise ValueError(kind)


def apply_dev(text: str, kind: str, dev: str) -> str:
    if dev == 'none':
        return text
    if dev in ('tab', 'sp1', 'sp8'):
        ind = {'tab': '\t', 'sp1': ' ', 'sp8': ' ' * 8}[dev]
        if kind in ('meta', 'post', 'pmeta', 'icom', 'dcom'):
            return '\n'.join(ind + l.lstrip(' ') for l in text.split('\n'))
        return text
    if kind in ('blank', 'ws'):
        return text
    if dev == 'trail':
        return text + '  '
    if kind in ('com', 'icom', 'dcom', 'head'):
        return text + ' ; ic' if dev == 'inline' else text + ' ; ic  '
    if dev == 'inline':
        return text + ' ; ic'
    if dev == 'trailinline':
        return text + '   ; ic  '
    return text


def render(doc: dict, flavor: int = 0) -> str:
    e = {'crlf': '\r\n', 'crcrlf': '\r\r\n'}.get(doc['eol'], '\n')
    out = []
    for j, k in enumerate(doc['lines'], 1):
        t = line_text(k, flavor, j)
        if doc['devAt'] == j:
            t = apply_dev(t, k, doc['dev'])
        out.append(t.replace('\n', e))
    text = e.join(out)
    if doc['final'] and doc['lines']:
        text += e
    return text


def layouts(*, kinds: tuple[str, ...] = ALL_KINDS, max_lines: int = 4, devs: tuple[str, ...] = ('none',),
            eols: tuple[str, ...] = ('lf',), finals: tuple[bool, ...] = (True,), accepted_only: bool = False,
            timeout: float = 1800) -> tuple[list[dict], Any]:
    """Run TLC on Layout.tla; returns (documents, TLCResult)."""
    c = dict(Kinds='{' + ','.join(f'"{k}"' for k in kinds) + '}', MaxLines=str(max_lines),
             Devs='{' + ','.join(f'"{d}"' for d in devs) + '}',
             Eols='{' + ','.join(f'"{x}"' for x in eols) + '}',
             Finals='{' + ','.join('TRUE' if x else 'FALSE' for x in finals) + '}')
    docs: list[dict] = []

    def onp(p: list) -> None:
        d = json.loads(p[1])
        if d['accept'] or not accepted_only:
            docs.append(d)
    r = tlc.run('Layout', c, invariants=['TypeOK'], constraints=['Emit'], on_print=onp, timeout=timeout)
    return docs, r

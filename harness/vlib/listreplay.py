"""Replay RepList.tla behaviours on a real document (spec -> code) and compare, after every
call, everything properties C03, C05, C06, C10 and C19 talk about.

A finding is (kind, message); kinds:
  exc        wrong / missing / unexpected exception                     (C10, C19)
  views      a view differs from the specification's expected view      (C10)
  pyread     a read through a view disagrees with the Python reference  (C10)
  text       canonical host: printed text differs from Doc(raw)         (C03, C06)
  frame      something outside the affected window changed              (C03)
  reparse    printed text does not parse back to the same content       (C06)
  tree       Tree!WellFormed violated                                   (C05)
  popped     a popped node is not a self-contained tree                 (C05)
  refusal    a refused call changed the document                        (C19)
"""
from __future__ import annotations

import copy
from typing import Any, Optional

from . import common, tree
from .listhost import Host

common.import_repo()
from autobean_refactor import models  # noqa: E402
from autobean_refactor.models import base as base_models  # noqa: E402

NONE = 99
SEPARATOR_TYPES = (models.Whitespace, models.Newline, models.Comma)


def _sl(sl: list) -> slice:
    return slice(*(None if x == NONE else x for x in sl))


def arg_class(op: str, args: dict, n: int, view_n: int) -> str:
    """Coarse class of the arguments, used in fingerprints."""
    parts = []
    if 'i' in args and op != 'attached':
        i = args['i']
        parts.append('neg' if -view_n <= i < 0 else 'oob' if (i >= view_n or i < -view_n) else 'nonneg')
    if 'sl' in args:
        r = range(view_n)[_sl(args['sl'])]
        step = r.step
        if step == 1 and r.stop < r.start:
            parts.append('revempty')
        elif step == 1:
            parts.append('at0' if r.start == 0 else 'mid')
        else:
            parts.append(f'step{step}')
    if 'b' in args:
        k = len(args['b'])
        parts.append(f'b{k if k < 2 else "2+"}')
    if op == 'attached':
        parts.append(f'{args["op"]}-{args["src"]}')
    return '-'.join(parts) or '-'


class Replay:
    def __init__(self, host: Host, beh: list[dict], layout: int, *, check: set[str],
                 touch_views_first: bool = True) -> None:
        self.host = host
        self.beh = beh
        self.layout = layout
        self.check = check
        self.findings: list[tuple[int, str, str, str]] = []   # (step, kind, fingerprint-part, msg)
        self.payload: dict[int, Any] = {}
        self.objs: dict[int, Any] = {}       # spec id -> python object
        self.ids: dict[int, int] = {}        # id(python object) -> spec id
        self.touch_views_first = touch_views_first
        self.steps_done = 0
        self.drift = 0

    # ------------------------------------------------------------------
    def add(self, step: int, kind: str, msg: str, fp_override: Optional[str] = None) -> None:
        if fp_override is not None:
            self.findings.append((step, kind, fp_override, msg))
            return
        ev = self.beh[step]
        n = len(self.beh[step - 1]['raw']) if step else 0
        vn = len(self.beh[step - 1]['views'].get(ev['view'], [])) if step else 0
        fp = f'{self.host.name}/{ev["view"] or "-"}/{ev["op"]}/{arg_class(ev["op"], ev["args"], n, vn)}'
        self.findings.append((step, kind, fp, msg))

    def _register(self, spec_id: int, obj: Any) -> None:
        self.objs[spec_id] = obj
        self.ids[id(obj)] = spec_id

    # ------------------------------------------------------------------
    def build(self) -> None:
        init = self.beh[0]
        items = [(t, v, None) for _, t, v in init['raw']]
        self.text0 = self.host.doc_text(items, self.layout)
        self.file = tree.parse(self.text0)
        self.parent = self.host.locate(self.file)
        self.raw_name = next(v for v, (k, _) in self.host.views.items() if k == 'raw')
        raw = list(self.host.view(self.parent, self.raw_name))
        if len(raw) != len(items):
            raise RuntimeError(f'host {self.host.name}: parsed list has {len(raw)} items, expected {len(items)}')
        for (sid, _, _), obj in zip(init['raw'], raw):
            self._register(sid, obj)
        # a second document whose nodes are attached elsewhere (C19 donors)
        self.others: dict[str, Any] = {}

    def other_item(self, which: str = 'other') -> Any:
        """A node attached in ANOTHER document.  'other': first item of a short list;
        'otherdup': first item of a list of two equal-looking items in a document that does not
        end with a newline (its first/last tokens look like the store's first/last tokens)."""
        if which not in self.others:
            tys = (self.host.init_types or self.host.types)
            if which == 'other':
                items = [(t, 1, None) for t in tys]
                text = self.host.doc_text(items, 0)
            else:
                items = [(tys[0], 1, None), (tys[0], 1, None)]
                text = self.host.doc_text(items, 0).rstrip('\n')
            self.others[which] = tree.parse(text)
        p = self.host.locate(self.others[which])
        return list(self.host.view(p, self.raw_name))[0]

    # ------------------------------------------------------------------
    def _make_batch(self, ev: dict, kind: str) -> list:
        args = ev['args']
        out = []
        for ty, val in args.get('b', []):
            if kind == 'str':
                out.append(self.host.value(ty, val))
            else:
                out.append(self.host.make(ty, val, None))
        return out

    def apply(self, step: int, ev: dict) -> tuple[Optional[BaseException], Any]:
        host = self.host
        op, vname, args = ev['op'], ev['view'], ev['args']
        kind = host.views[vname][0]
        view = host.view(self.parent, vname)
        result = None
        exc: Optional[BaseException] = None
        self._batch_objs: list = []
        try:
            if op in ('append', 'extend', 'insert', 'setitem', 'setslice', 'iadd'):
                batch = self._make_batch(ev, kind)
                self._batch_objs = batch
                if op == 'append':
                    view.append(batch[0])
                elif op == 'extend':
                    view.extend(batch)
                elif op == 'iadd':
                    # `parent.view += batch` as the language executes it: read the attribute, __iadd__, assign it back
                    tmp = getattr(self.parent, vname)
                    tmp = tmp.__iadd__(batch)
                    setattr(self.parent, vname, tmp)
                    if tmp is not view or getattr(self.parent, vname) is not view and kind != 'raw':
                        raise RuntimeError('__iadd__ does not return the view')
                elif op == 'insert':
                    view.insert(args['i'], batch[0])
                elif op == 'setitem':
                    view[args['i']] = batch[0]
                else:
                    view[_sl(args['sl'])] = batch
            elif op == 'pop':
                result = view.pop(args['i'])
            elif op == 'delitem':
                del view[args['i']]
            elif op == 'delslice':
                del view[_sl(args['sl'])]
            elif op == 'clear':
                view.clear()
            elif op in ('remove', 'discard'):
                x = host.value(args['t'], args['x']) if kind == 'str' else host.make(args['t'], args['x'], None)
                # equality for nodes is textual: compare against an equal-looking fresh node whose
                # payload matches the first candidate (payload is not part of the abstract value)
                if kind != 'str':
                    for sid, t, v in self.beh[step - 1]['raw']:
                        if t == args['t'] and v == args['x'] and t in host.views[vname][1]:
                            x = host.make(t, v, self.payload.get(sid))
                            break
                getattr(view, op)(x)
            elif op == 'reverse':
                view.reverse()
            elif op in ('mset', 'msetdefault', 'mupdate'):
                k = host.value(host.views[vname][1][0], args['k'])
                if kind == 'mapval':
                    x = host.payload_value(args['nv'])
                else:
                    x = host.make(host.views[vname][1][0], args['k'], args['nv'])
                    self._batch_objs = [x]
                if op == 'mset':
                    view[k] = x
                elif op == 'msetdefault':
                    had = k in view
                    cur = view[k] if had else None
                    result = view.setdefault(k, x)
                    if had and (result is not cur if kind == 'map' else result != cur):
                        raise RuntimeError('setdefault on a present key does not return the current value')
                    result = None
                elif step % 2:
                    view.update({k: x})
                else:
                    view.update([(k, x)])
            elif op == 'mdel':
                del view[host.value(host.views[vname][1][0], args['k'])]
            elif op == 'mpopitem':
                result = view.popitem()
            elif op == 'mpop':
                result = view.pop(host.value(host.views[vname][1][0], args['k']))
            elif op == 'edit':
                obj = self.objs[self.beh[step - 1]['raw'][args['k'] - 1][0]]
                self.set_val(obj, args['x'])
            elif op == 'attached':
                self._apply_attached(view, kind, args)
            else:
                raise RuntimeError(f'unknown op {op}')
        except Exception as e:  # noqa: BLE001
            exc = e
        return exc, result

    def _apply_attached(self, view: Any, kind: str, args: dict) -> None:
        host = self.host
        k, j, src, i, op = args['k'], args['j'], args['src'], args['i'], args['op']
        vtypes = None
        for vname, (kd, tys2) in host.views.items():
            if host.view(self.parent, vname) is view:
                vtypes = tys2
        assert vtypes is not None
        batch = [host.make(vtypes[0], 1 + (m % 2), None) for m in range(k)]
        if src == 'same':
            batch[j - 1] = list(view)[0]
        elif src == 'freedup':
            batch[j - 1] = batch[j % k]          # the same free node at two positions of the batch
        else:
            batch[j - 1] = self.other_item(src)
        if op == 'append':
            view.append(batch[0])
        elif op == 'insert':
            view.insert(i, batch[0])
        elif op == 'setitem':
            view[i] = batch[0]
        elif op == 'setslice':
            view[(slice(i, i + k) if i >= 0 else slice(i, None))] = batch
        elif op == 'setext':
            view[::2] = batch
        elif op == 'extend':
            view.extend(batch)
        elif op == 'mset':
            view[batch[0].key] = batch[0]

    def set_val(self, obj: Any, val: int) -> None:
        self.host.set_val(obj, val)

    # ------------------------------------------------------------------
    def snapshot(self) -> dict:
        store = self.file.token_store
        toks = list(store)
        pf, pl = self.parent.first_token, self.parent.last_token
        try:
            a, b = store.get_index(pf), store.get_index(pl)
        except Exception:  # noqa: BLE001
            a, b = 0, len(toks) - 1
        sib = {}
        raw_rep = None
        for name, ch in tree.children(self.parent):
            if hasattr(ch, 'items') and hasattr(ch, 'placeholder') and \
                    ch is getattr(self.host.view(self.parent, self.raw_name), 'repeated', None):
                raw_rep = ch
                continue
            try:
                sib[name] = [(id(t), t.raw_text) for t in ch.tokens]
            except Exception:  # noqa: BLE001
                sib[name] = None
        items = {}
        if raw_rep is not None:
            for it in raw_rep.items:
                try:
                    items[id(it)] = [(id(t), t.raw_text) for t in it.tokens]
                except Exception:  # noqa: BLE001
                    items[id(it)] = None
        return {'toks': toks, 'texts': {id(t): t.raw_text for t in toks}, 'text': ''.join(t.raw_text for t in toks),
                'before': toks[:a], 'after': toks[b + 1:], 'sib': sib, 'items': items}

    # ------------------------------------------------------------------
    def compare(self, step: int, ev: dict, exc: Optional[BaseException], result: Any, snap: Optional[dict]) -> bool:
        """Returns False when the behaviour cannot be continued (state diverged)."""
        host = self.host
        ok = True
        want_exc = ev['exc']
        got_exc = type(exc).__name__ if exc is not None else ''
        if want_exc == 'ANY' and got_exc:
            got_exc = 'ANY'
        if want_exc != got_exc:
            if {'exc'} & self.check:
                self.add(step, 'exc', f'expected {want_exc or "no exception"}, got {got_exc or "no exception"}'
                         + (f': {exc}' if exc else ''))
            ok = False
        # ---- real raw list vs specification -------------------------------
        try:
            real_raw = list(host.view(self.parent, self.raw_name))
        except Exception as e:  # noqa: BLE001
            self.add(step, 'views', f'raw view unreadable: {type(e).__name__}: {e}')
            return False
        spec_raw = ev['raw']
        new_ids = {n[0] for n in ev.get('new', [])}
        batch = list(getattr(self, '_batch_objs', []))
        for (sid, _, _), obj in zip(ev.get('new', []), batch):
            if not isinstance(obj, (str, int)) and id(obj) not in self.ids:
                self._register(sid, obj)
        same = len(real_raw) == len(spec_raw)
        if same:
            for (sid, t, v), obj in zip(spec_raw, real_raw):
                if id(obj) in self.ids:
                    if self.ids[id(obj)] != sid:
                        same = False
                        break
                elif sid in new_ids and sid not in self.objs:
                    self._register(sid, obj)
                else:
                    same = False
                    break
                try:
                    if host.proj(obj) != (t, v):
                        same = False
                        break
                except Exception:  # noqa: BLE001
                    same = False
                    break
        if not same:
            got = []
            for o in real_raw:
                try:
                    got.append((self.ids.get(id(o), '?'),) + tuple(host.proj(o)))
                except Exception:  # noqa: BLE001
                    got.append(('?', '?', '?'))
            # Where a call through a FILTERED view puts a new item relative to items of other
            # types is not prescribed: if every view still shows what the specification expects and
            # the surviving items kept their order, this is drift (the replay stops), not a violation.
            surv_spec = [sid for sid, _, _ in spec_raw if sid not in new_ids]
            surv_real = [g[0] for g in got if g[0] != '?' and g[0] not in new_ids]
            views_ok = surv_spec == surv_real and len(real_raw) == len(spec_raw)
            if views_ok:
                trip = {sid: (t, v) for sid, t, v in spec_raw}
                for vname, (kind, tys) in host.views.items():
                    exp = [trip[sid] for sid in ev['views'][vname]]
                    gotv = [(g[1], g[2]) for g in got if g[1] in tys]
                    if exp != gotv:
                        views_ok = False
            if views_ok and ev['view'] and host.views[ev['view']][0] != 'raw':
                self.drift += 1
                return False
            if 'views' in self.check:
                self.add(step, 'views', f'raw list is {got}, specification expects {[tuple(x) for x in spec_raw]}')
            if 'frame' in self.check and surv_spec != surv_real:
                self.add(step, 'frame', f'children other than the operated one changed: surviving items {surv_real}, '
                                        f'specification keeps {surv_spec}')
            ok = False
        # ---- every view ---------------------------------------------------------
        if ok and ({'views', 'pyread'} & self.check):
            for vname, (kind, tys) in host.views.items():
                exp_ids = ev['views'][vname]
                trip = {sid: (t, v) for sid, t, v in spec_raw}
                try:
                    view = host.view(self.parent, vname)
                    got = list(view)
                    if kind == 'str':
                        exp = [host.value(*trip[s]) for s in exp_ids]
                        if got != exp:
                            self.add(step, 'views', f'view {vname} shows {got}, expected {exp}')
                            ok = False
                            continue
                        ref = exp
                    else:
                        exp_objs = [self.objs[s] for s in exp_ids]
                        if len(got) != len(exp_objs) or any(a is not b for a, b in zip(got, exp_objs)):
                            self.add(step, 'views', f'view {vname} has {[self.ids.get(id(o), "?") for o in got]}, '
                                                    f'expected {exp_ids}')
                            ok = False
                            continue
                        ref = exp_objs
                    if 'pyread' in self.check:
                        self._py_reads(step, vname, kind, view, ref, [trip[s] for s in exp_ids])
                except Exception as e:  # noqa: BLE001
                    self.add(step, 'views', f'view {vname} unreadable: {type(e).__name__}: {e}')
                    ok = False
        # ---- popped node ----------------------------------------------------------
        if ev['op'] in ('pop',) and exc is None and result is not None and 'popped' in self.check \
                and isinstance(result, base_models.RawModel):      # (value views pop plain Python values)
            try:
                bad = tree.wellformed(result, self_contained=True)
                if bad:
                    self.add(step, 'popped', '; '.join(bad[:3]))
                else:
                    # the popped node must be editable and insertable again
                    t0 = tree.text_of(result)
                    if hasattr(result, 'spacing_after'):
                        pass
                    if not t0:
                        self.add(step, 'popped', 'popped node prints nothing')
            except Exception as e:  # noqa: BLE001
                self.add(step, 'popped', f'{type(e).__name__}: {e}')
        # ---- document ---------------------------------------------------------------
        store = self.file.token_store
        try:
            text = tree.store_text(store)
        except Exception as e:  # noqa: BLE001
            self.add(step, 'tree', f'store unreadable: {type(e).__name__}: {e}')
            return False
        if want_exc and snap is not None and 'refusal' in self.check and got_exc:
            now = list(store)
            if text != snap['text'] or len(now) != len(snap['toks']) or any(a is not b for a, b in zip(now, snap['toks'])):
                self.add(step, 'refusal', f'document changed by a refused call ({got_exc}): '
                                          f'{snap["text"]!r} -> {text!r}')
        if ok:
            trip3 = [(t, v, self.payload.get(sid)) for sid, t, v in spec_raw]
            if self.layout == 0 and host.canonical and 'text' in self.check:
                exp_text = host.doc_text(trip3, 0)
                if text != exp_text:
                    self.add(step, 'text', f'printed {text!r}, Doc(raw) renders {exp_text!r}')
            if snap is not None and 'frame' in self.check and not want_exc:
                self._frame(step, ev, snap)
        if 'reparse' in self.check and not (want_exc and got_exc):
            self._reparse(step, text, spec_raw if ok else None)
        if 'tree' in self.check:
            bad = tree.wellformed(self.file)
            if bad:
                self.add(step, 'tree', '; '.join(bad[:3]))
        return ok

    def _py_reads(self, step: int, vname: str, kind: str, view: Any, ref: list, trip: list) -> None:
        n = len(ref)
        host = self.host

        def same(a: Any, b: Any) -> bool:
            return a == b if kind == 'str' else a is b
        try:
            if len(view) != n:
                self.add(step, 'pyread', f'len({vname}) = {len(view)}, expected {n}')
            for i in range(-n - 1, n + 1):
                try:
                    want: Any = ref[i]
                    werr = False
                except IndexError:
                    werr = True
                try:
                    got = view[i]
                    gerr = False
                except IndexError:
                    gerr = True
                if werr != gerr or (not werr and not same(got, want)):
                    self.add(step, 'pyread', f'{vname}[{i}] disagrees with the list reference')
            for sl in (slice(None), slice(1, None), slice(None, -1), slice(None, None, -1), slice(None, None, 2),
                       slice(-2, None), slice(3, 1), slice(0, 0)):
                got_l = view[sl]
                want_l = ref[sl]
                if len(got_l) != len(want_l) or not all(same(a, b) for a, b in zip(got_l, want_l)):
                    self.add(step, 'pyread', f'{vname}[{sl}] disagrees with the list reference')
            # inherited reads: iteration both ways, index / count of every element and of a stranger
            if not all(same(a, b) for a, b in zip(list(iter(view)), ref)) or len(list(iter(view))) != n:
                self.add(step, 'pyread', f'iter({vname}) disagrees with the list reference')
            if not all(same(a, b) for a, b in zip(list(reversed(view)), ref[::-1])) or len(list(reversed(view))) != n:
                self.add(step, 'pyread', f'reversed({vname}) disagrees with the list reference')
            for x in ref[:3]:
                if view.index(x) != ref.index(x) or view.count(x) != ref.count(x) or x not in view:
                    self.add(step, 'pyread', f'{vname}.index/count/in of an element disagrees with the list reference')
            if kind in ('map', 'mapval'):
                keys = [host.value(t, v) for t, v in trip]
                sentinel = object()
                for kv in (1, 2, 3):
                    k = host.value('Meta', kv)
                    first = next((j for j, kk in enumerate(keys) if kk == k), None)
                    got = view.get(k, sentinel)
                    if (got is sentinel) != (first is None):
                        self.add(step, 'pyread', f'{vname}.get({k!r}) is wrong about presence')
                    elif first is not None and (got is not ref[first] if kind == 'map' else got != ref[first].value):
                        self.add(step, 'pyread', f'{vname}.get({k!r}) is not the first match')
                if [a for a, b in view.items()] != keys or len([b for b in view.values()]) != n:
                    self.add(step, 'pyread', f'{vname}.items()/values() disagree with keys()')
                if kind == 'map' and not all(a is b for a, b in zip(view.values(), ref)):
                    self.add(step, 'pyread', f'{vname}.values() are not the items')
                if kind == 'mapval' and [b for b in view.values()] != [it.value for it in ref]:
                    self.add(step, 'pyread', f'{vname}.values() are not the item values')
                if list(reversed(view.keys())) != keys[::-1]:
                    self.add(step, 'pyread', f'reversed({vname}.keys()) is wrong')
                # membership tests on the dict views themselves
                for kv in (1, 2, 3):
                    k = host.value('Meta', kv)
                    if (k in view.keys()) != (k in keys):
                        self.add(step, 'pyread', f'{k!r} in {vname}.keys() is wrong')
                if ref:
                    first_of = next(j for j, kk in enumerate(keys) if kk == keys[0])
                    vals = list(view.values())
                    if vals[0] not in view.values():
                        self.add(step, 'pyread', f'a value is not in {vname}.values()')
                    pair = (keys[0], view[keys[0]])
                    if pair not in view.items() or (keys[0], object()) in view.items():
                        self.add(step, 'pyread', f'membership in {vname}.items() is wrong')
                if list(view.keys()) != keys:
                    self.add(step, 'pyread', f'{vname}.keys() = {list(view.keys())}, expected {keys}')
                if len(list(view.values())) != n or len(list(view.items())) != n:
                    self.add(step, 'pyread', f'{vname}.values()/items() length')
                for kv in (1, 2, 3):
                    k = host.value('Meta', kv)
                    first = next((j for j, kk in enumerate(keys) if kk == k), None)
                    if (k in view) != (first is not None):
                        self.add(step, 'pyread', f'{k!r} in {vname} is wrong')
                    try:
                        got = view[k]
                        if first is None:
                            self.add(step, 'pyread', f'{vname}[{k!r}] should raise KeyError')
                        elif kind == 'map' and got is not ref[first]:
                            self.add(step, 'pyread', f'{vname}[{k!r}] is not the first match')
                        elif kind == 'mapval' and got != ref[first].value:
                            self.add(step, 'pyread', f'{vname}[{k!r}] is not the first match value')
                    except KeyError:
                        if first is not None:
                            self.add(step, 'pyread', f'{vname}[{k!r}] raised KeyError')
            elif kind == 'str':
                for t, v in trip[:2]:
                    if host.value(t, v) not in view:
                        self.add(step, 'pyread', f'value in {vname} is wrong')
        except Exception as e:  # noqa: BLE001
            self.add(step, 'pyread', f'reading {vname}: {type(e).__name__}: {e}')

    def _frame(self, step: int, ev: dict, snap: dict) -> None:
        store = self.file.token_store
        now = list(store)
        nowset = {id(t) for t in now}
        pf, pl = self.parent.first_token, self.parent.last_token
        try:
            a, b = store.get_index(pf), store.get_index(pl)
        except Exception as e:  # noqa: BLE001
            self.add(step, 'frame', f'parent span unreadable: {type(e).__name__}')
            return
        if len(nowset) != len(now):
            self.add(step, 'frame', 'a token object now occurs at two places of the document')
        before, after = now[:a], now[b + 1:]
        for name, old, new in (('before', snap['before'], before), ('after', snap['after'], after)):
            if len(old) != len(new) or any(x is not y for x, y in zip(old, new)):
                self.add(step, 'frame', f'tokens {name} the parent changed identity/order')
                return
            for t in new:
                if snap['texts'].get(id(t)) != t.raw_text:
                    self.add(step, 'frame', f'text of a token {name} the parent changed')
                    return
        # siblings of the list inside the parent
        for name, ch in tree.children(self.parent):
            if name in snap['sib'] and snap['sib'][name] is not None:
                try:
                    cur = [(id(t), t.raw_text) for t in ch.tokens]
                except Exception:  # noqa: BLE001
                    cur = None
                if cur != snap['sib'][name]:
                    self.add(step, 'frame', f'sibling {name} changed: {snap["sib"][name]} -> {cur}')
        # surviving items keep their tokens (string-view assignments and `edit` change one item's text)
        changed_ok = ev['op'] in ('edit', 'mset', 'mupdate') or self.host.views.get(ev['view'], ('',))[0] == 'str'
        raw_rep = getattr(self.host.view(self.parent, self.raw_name), 'repeated', None)
        if raw_rep is not None:
            for it in raw_rep.items:
                old = snap['items'].get(id(it))
                if old is None:
                    continue
                cur = [(id(t), t.raw_text) for t in it.tokens]
                if cur != old and not changed_ok:
                    self.add(step, 'frame', f'surviving item changed: {old} -> {cur}')
        # token-level diff: only item tokens and separator characters may appear / disappear
        item_tok_ids = set()
        for lst in snap['items'].values():
            if lst:
                item_tok_ids.update(i for i, _ in lst)
        if raw_rep is not None:
            for it in raw_rep.items:
                item_tok_ids.update(id(t) for t in it.tokens)
        oldset = {id(t) for t in snap['toks']}
        for t in snap['toks']:
            if id(t) not in nowset and id(t) not in item_tok_ids:
                if not (isinstance(t, SEPARATOR_TYPES) or t.raw_text == ''):
                    self.add(step, 'frame', f'token {t!r} outside the removed children disappeared')
        for t in now:
            if id(t) not in oldset and id(t) not in item_tok_ids:
                if not (isinstance(t, SEPARATOR_TYPES) or t.raw_text == ''):
                    self.add(step, 'frame', f'token {t!r} outside the added children appeared')
        # relative order of surviving tokens
        surv_old = [t for t in snap['toks'] if id(t) in nowset]
        surv_new = [t for t in now if id(t) in oldset]
        if any(x is not y for x, y in zip(surv_old, surv_new)):
            # comment claiming may legitimately move zero-width placeholders
            so = [t for t in surv_old if t.raw_text]
            sn = [t for t in surv_new if t.raw_text]
            if any(x is not y for x, y in zip(so, sn)):
                self.add(step, 'frame', 'surviving tokens were re-ordered')

    def _reparse(self, step: int, text: str, spec_raw: list) -> None:
        host = self.host
        try:
            f2 = tree.parse(text)
        except Exception as e:  # noqa: BLE001
            self.add(step, 'reparse', f'printed text does not parse: {type(e).__name__}: {str(e)[:120]} :: {text!r}')
            return
        try:
            c1, c2 = tree.content(self.file), tree.content(f2)
            if c1 != c2:
                import re as _re
                fpo = None
                if host.name == 'custom.values' and _re.search(r'(\d|\))\s+-\d', text.split('\n')[0]):
                    # a negative number written directly after a number reads back as a subtraction
                    fpo = 'custom.values/negative-number-after-number'
                self.add(step, 'reparse', f'content differs after re-parse of {text!r}', fpo)
                return
            p2 = host.locate(f2)
            # what every view says in memory must be what the same view says on the re-parsed text
            for vname, (kind, tys) in host.views.items():
                if kind == 'str':
                    a, b = list(host.view(self.parent, vname)), list(host.view(p2, vname))
                else:
                    a = [host.proj(o) for o in host.view(self.parent, vname) if not isinstance(o, models.BlockComment)]
                    b = [host.proj(o) for o in host.view(p2, vname) if not isinstance(o, models.BlockComment)]
                if a != b:
                    self.add(step, 'reparse', f'view {vname} says {a} in memory but {b} after re-parse of {text!r}')
                    return
            if spec_raw is not None:
                got = [host.proj(o) for o in host.view(p2, self.raw_name) if not isinstance(o, models.BlockComment)]
                want = [(t, v) for _, t, v in spec_raw if t != 'Comment']
                if got != want:
                    self.add(step, 'reparse', f're-parsed list is {got}, specification has {want} :: {text!r}')
        except Exception as e:  # noqa: BLE001
            self.add(step, 'reparse', f'{type(e).__name__}: {e}')

    # ------------------------------------------------------------------
    def _popitem_branch(self, step: int, ev: dict, exc: Optional[BaseException], result: Any) -> Optional[set]:
        """Which of RepList!MPopItem's modes describe what popitem() just did: {'refused'} when it raised,
        the subset of {'first', 'last'} naming the one item that left the view (its key returned) otherwise; None when the result names neither
        (every mode's post-state is then compared and must disagree)."""
        if exc is not None:
            return {'refused'}
        prev = self.beh[step - 1]['views'][ev['view']]
        if not prev or not isinstance(result, tuple) or len(result) != 2:
            return None
        try:
            now = {id(o) for o in self.host.view(self.parent, ev['view'])}
        except Exception:  # noqa: BLE001
            return None
        gone = [sid for sid in prev if id(self.objs.get(sid)) not in now]
        out = set()
        for mode, sid in (('first', prev[0]), ('last', prev[-1])):
            if gone == [sid] and getattr(self.objs.get(sid), 'key', object()) == result[0]:
                out.add(mode)
        return out or None

    def run(self) -> list[tuple[int, str, str, str]]:
        if any(ev['op'] in self.host.skip_ops for ev in self.beh[1:]):
            return []
        self.build()
        if self.touch_views_first:
            # register every view's update handler before the first mutation
            for vname in self.host.views:
                list(self.host.view(self.parent, vname))
        if not self.compare(0, self.beh[0], None, None, None):
            raise RuntimeError(f'host {self.host.name} layout {self.layout}: initial state does not match: {self.findings}')
        for step in range(1, len(self.beh)):
            ev = self.beh[step]
            snap = self.snapshot()
            exc, result = self.apply(step, ev)
            # mirror payload changes
            if ev['op'] in ('mset', 'mupdate', 'msetdefault') and not ev['exc']:
                prev_view = self.beh[step - 1]['views'][ev['view']]
                pv = {sid: v for sid, _, v in self.beh[step - 1]['raw']}
                hit = next((sid for sid in prev_view if pv[sid] == ev['args']['k']), None)
                if ev['op'] == 'msetdefault' and hit is not None:
                    tgt = None         # present key: nothing is written
                elif self.host.views[ev['view']][0] == 'mapval':
                    tgt = hit if hit is not None else (ev['new'][0][0] if ev['new'] else None)
                else:
                    tgt = ev['new'][0][0] if ev['new'] else None
                if tgt is not None:
                    self.payload[tgt] = ev['args']['nv']
            if ev['op'] == 'mpopitem':
                # the specification admits three outcomes; follow the one the code took
                took = self._popitem_branch(step, ev, exc, result)
                if took is not None and ev['args']['mode'] not in took:
                    return self.findings
            self.steps_done += 1
            if not self.compare(step, ev, exc, result, snap):
                break
        return self.findings


def view_name_of(host: Host, view: Any, parent: Any) -> str:
    for vname in host.views:
        if host.view(parent, vname) is view:
            return vname
    return ''

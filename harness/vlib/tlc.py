"""Run TLC on a module of /verif/spec with constants given as TLA+ expressions.

A model is (module, constants, cfg-lines).  For every run a wrapper module
``MC_<module>`` (EXTENDS the module, one definition per constant) and a cfg are
generated into a fresh temp directory outside /verif and /repo; the spec directory is put
on the TLA-Library path.  Output is parsed for state counts, errors and PrintT tuples.
"""
from __future__ import annotations

import dataclasses
import json
import os
import re
import shutil
import subprocess
import tempfile
import time
from typing import Any, Iterable, Optional

SPEC_DIR = os.path.join(os.path.dirname(os.path.dirname(os.path.dirname(os.path.abspath(__file__)))), 'spec')
JAR = '/opt/veriftools/tla/tla2tools.jar'
CM_JAR = '/opt/veriftools/tla/CommunityModules-deps.jar'


@dataclasses.dataclass
class TLCResult:
    ok: bool                      # finished without error / violation
    generated: int = 0            # "states generated" (= transitions explored)
    distinct: int = 0             # distinct states
    depth: int = 0
    violated: Optional[str] = None  # invariant / property name, or 'deadlock', 'error'
    prints: list = dataclasses.field(default_factory=list)   # parsed PrintT tuples
    wall_s: float = 0.0
    tail: str = ''
    timed_out: bool = False
    cmd: str = ''
    coverage: dict = dataclasses.field(default_factory=dict)  # action name -> (distinct, total)


_STATES_RE = re.compile(r'(\d+) states generated, (\d+) distinct states found')
_DEPTH_RE = re.compile(r'The depth of the complete state graph search is (\d+)')
_INV_RE = re.compile(r'Invariant (\S+) is violated')
_PROP_RE = re.compile(r'(?:Action property|Temporal properties|property) (\S+)? ?(?:is|were) violated')
_COV_RE = re.compile(r'^<(\w+) line \d+, col \d+ to line \d+, col \d+ of module (\w+)>: (\d+):(\d+)')


def _find_java() -> str:
    return shutil.which('java') or 'java'


def parse_print(line: str) -> Optional[list]:
    """Parse a PrintT'd tuple whose elements are ints / strings (TLA+ syntax)."""
    line = line.strip()
    if not (line.startswith('<<') and line.endswith('>>')):
        return None
    body = line[2:-2]
    out: list[Any] = []
    i, n = 0, len(body)
    while i < n:
        c = body[i]
        if c in ' ,':
            i += 1
            continue
        if c == '"':
            j = i + 1
            while j < n:
                if body[j] == '\\':
                    j += 2
                    continue
                if body[j] == '"':
                    break
                j += 1
            try:
                out.append(json.loads(body[i:j + 1]))
            except json.JSONDecodeError:
                return None
            i = j + 1
        else:
            j = i
            while j < n and body[j] not in ',':
                j += 1
            tok = body[i:j].strip()
            if re.fullmatch(r'-?\d+', tok):
                out.append(int(tok))
            elif tok in ('TRUE', 'FALSE'):
                out.append(tok == 'TRUE')
            else:
                out.append(tok)
            i = j
    return out


def run(module: str,
        constants: dict[str, str],
        *,
        init: str = 'Init',
        next: str = 'Next',
        invariants: Iterable[str] = (),
        properties: Iterable[str] = (),
        constraints: Iterable[str] = (),
        action_constraints: Iterable[str] = (),
        postcondition: Optional[str] = None,
        view: Optional[str] = None,
        check_deadlock: bool = False,
        workers: int | str = 16,
        simulate: Optional[dict] = None,      # {'num': N, 'depth': D}
        seed: Optional[int] = None,
        timeout: float = 1200,
        env: Optional[dict[str, str]] = None,
        coverage: bool = False,
        extra_defs: str = '',
        extends: Iterable[str] = (),
        heap: str = '8g',
        keep_output: bool = False,
        print_prefixes: tuple[str, ...] = ('TRACE', 'VERDICT', 'INFO'),
        on_print=None,
        ) -> TLCResult:
    tmp = tempfile.mkdtemp(prefix='verif_tlc_')
    try:
        mc = f'MC_{module}'
        defs = []
        cfg = [f'INIT {init}', f'NEXT {next}']
        if constants:
            cfg.append('CONSTANTS')
        for k, v in constants.items():
            defs.append(f'const_{k} == {v}')
            cfg.append(f'    {k} <- const_{k}')
        for inv in invariants:
            cfg.append(f'INVARIANT {inv}')
        for p in properties:
            cfg.append(f'PROPERTY {p}')
        for c in constraints:
            cfg.append(f'CONSTRAINT {c}')
        for c in action_constraints:
            cfg.append(f'ACTION_CONSTRAINT {c}')
        if postcondition:
            cfg.append(f'POSTCONDITION {postcondition}')
        if view:
            cfg.append(f'VIEW {view}')
        cfg.append(f'CHECK_DEADLOCK {"TRUE" if check_deadlock else "FALSE"}')
        ext = ', '.join([module, *extends])
        with open(os.path.join(tmp, mc + '.tla'), 'w') as f:
            f.write(f'---- MODULE {mc} ----\nEXTENDS {ext}\n' + '\n'.join(defs) + '\n' + extra_defs + '\n====\n')
        with open(os.path.join(tmp, mc + '.cfg'), 'w') as f:
            f.write('\n'.join(cfg) + '\n')
        cmd = [_find_java(), f'-Xmx{heap}', '-Xss64m', '-XX:+UseParallelGC',
               f'-DTLA-Library={SPEC_DIR}',
               '-cp', f'{JAR}:{CM_JAR}', 'tlc2.TLC',
               '-workers', str(workers), '-metadir', os.path.join(tmp, 'meta'),
               '-noGenerateSpecTE', '-config', mc + '.cfg']
        if simulate:
            cmd += ['-simulate', f'num={simulate["num"]}', '-depth', str(simulate['depth'])]
        if seed is not None:
            cmd += ['-seed', str(seed)]
        if coverage:
            cmd += ['-coverage', '1']
        cmd.append(mc + '.tla')
        e = dict(os.environ)
        if env:
            e.update(env)
        t0 = time.time()
        res = TLCResult(ok=False, cmd=' '.join(cmd))
        proc = subprocess.Popen(cmd, cwd=tmp, env=e, stdout=subprocess.PIPE, stderr=subprocess.STDOUT, text=True)
        tail: list[str] = []
        try:
            deadline = t0 + timeout
            assert proc.stdout is not None
            for line in proc.stdout:
                line = line.rstrip('\n')
                if line.startswith('<<"'):
                    parsed = parse_print(line)
                    if parsed and parsed[0] in print_prefixes:
                        if on_print is not None:
                            on_print(parsed)
                        else:
                            res.prints.append(parsed)
                        continue
                tail.append(line)
                if len(tail) > 400 and not keep_output:
                    del tail[:200]
                m = _STATES_RE.search(line)
                if m:
                    res.generated, res.distinct = int(m.group(1)), int(m.group(2))
                m = _DEPTH_RE.search(line)
                if m:
                    res.depth = int(m.group(1))
                m = _INV_RE.search(line)
                if m:
                    res.violated = m.group(1)
                elif 'is violated' in line or 'was violated' in line:
                    res.violated = res.violated or line.strip()
                elif line.startswith('Error:') and res.violated is None:
                    if 'Deadlock' in line:
                        res.violated = 'deadlock'
                    elif 'Invariant' not in line:
                        res.violated = 'error: ' + line[6:].strip()
                if coverage:
                    m = _COV_RE.match(line)
                    if m:
                        res.coverage[m.group(1)] = (int(m.group(3)), int(m.group(4)))
                if time.time() > deadline:
                    proc.kill()
                    res.timed_out = True
                    break
            proc.wait(timeout=30)
        finally:
            if proc.poll() is None:
                proc.kill()
        res.wall_s = time.time() - t0
        res.tail = '\n'.join(tail[-60:])
        # simulation mode never prints "Model checking completed"; exit code 0 = no error
        res.ok = (proc.returncode == 0) and res.violated is None and not res.timed_out
        if simulate and res.generated == 0:
            m = re.search(r'(\d+) states checked', '\n'.join(tail))
            if m:
                res.generated = int(m.group(1))
        return res
    finally:
        shutil.rmtree(tmp, ignore_errors=True)


def sany(module_file: str) -> tuple[bool, str]:
    cmd = [_find_java(), f'-DTLA-Library={SPEC_DIR}', '-cp', f'{JAR}:{CM_JAR}', 'tla2sany.SANY', module_file]
    p = subprocess.run(cmd, cwd=SPEC_DIR, capture_output=True, text=True)
    ok = p.returncode == 0 and 'error' not in p.stdout.lower().replace('errors: 0', '')
    return ok, p.stdout[-2000:]

#!/venv/bin/python
"""Entry point of every registered check:  run.py --property Cxx --tier quick|thorough

Exit 0: property held on everything explored (KNOWN-FINDING lines possible).
Exit 1: `VIOLATION property=<id> replay=<path>` printed.
Exit 2: machinery failure (never a verdict about the code).
"""
from __future__ import annotations

import argparse
import importlib
import os
import sys
import traceback

HERE = os.path.dirname(os.path.abspath(__file__))
sys.path.insert(0, HERE)

CHECKS = {
    'C01': ('checks.c01', 'C01'),
    'C02': ('checks.tokedit', 'C02'),
    'C04': ('checks.c04', 'C04'),
    'C07': ('checks.store_check', 'C07'),
    'C09': ('checks.c09', 'C09'),
    'C08': ('checks.c08', 'C08'),
    'C10': ('checks.replist_check', 'C10'),
    'C03': ('checks.composite', 'C03'),
    'C06': ('checks.composite', 'C06'),
    'C05': ('checks.composite', 'C05'),
    'C11': ('checks.docs_check', 'C11'),
    'C20': ('checks.docs_check', 'C20'),
    'C12': ('checks.c12', 'C12'),
    'C13': ('checks.numexpr', 'C13'),
    'C14': ('checks.c14', 'C14'),
    'C15': ('checks.c15', 'C15'),
    'C16': ('checks.c16', 'C16'),
    'C17': ('checks.c17', 'C17'),
    'C18': ('checks.c18', 'C18'),
    'C19': ('checks.c19', 'C19'),
}


def generic_replay(mod, arg: str, tier: str, path: str) -> int:
    """Show a recorded violation and re-run the check of its property: exit 1 if the same fingerprint
    (failing input class) is reported again on the current tree, 0 otherwise."""
    import io
    import json
    from contextlib import redirect_stdout
    rec = json.load(open(path))
    v = rec.get('violation', {})
    print(f"replay of {path}: property {rec.get('property')} fingerprint {v.get('fingerprint')}")
    print('  ' + str(v.get('what', ''))[:600])
    buf = io.StringIO()
    with redirect_stdout(buf):
        rc = mod.main(arg, tier)
    out = buf.getvalue()
    again = f"fingerprint: {v.get('fingerprint')}" in out
    print('reproduced on the current tree' if again else 'not reproduced on the current tree')
    if again:
        print(f"VIOLATION property={rec.get('property')} replay={path}")
    return 1 if again else (rc if rc == 2 else 0)


def main() -> int:
    ap = argparse.ArgumentParser()
    ap.add_argument('--property', required=True)
    ap.add_argument('--tier', default=os.environ.get('VERIF_TIER', 'quick'), choices=['quick', 'thorough'])
    ap.add_argument('--replay', default=None)
    a = ap.parse_args()
    os.environ.setdefault('PYTHONHASHSEED', '0')
    os.environ['AUTOBEAN_VERIF_TRACE'] = '1'
    if a.property not in CHECKS:
        print(f'unknown property {a.property}')
        return 2
    modname, arg = CHECKS[a.property]
    try:
        mod = importlib.import_module(modname)
        from vlib import common
        # backstop for work done outside the guarded pool jobs: the check ends (as a machinery failure, never as a
        # verdict) if it runs far beyond anything it needs
        budget = float(os.environ.get('VERIF_TOTAL_GUARD', '10800' if a.tier == 'quick' else '43200'))
        with common.guard(budget):
            if a.replay:
                return generic_replay(mod, arg, a.tier, a.replay)
            return mod.main(arg, a.tier)
    except SystemExit:
        raise
    except BaseException:  # noqa: BLE001
        traceback.print_exc()
        print('MACHINERY-ERROR: check crashed')
        return 2


if __name__ == '__main__':
    sys.exit(main())

#!/venv/bin/python
"""setup_cmd: offline sanity of the framework (parse every TLA+ module, import the package)."""
import glob, os, sys
HERE = os.path.dirname(os.path.abspath(__file__))
sys.path.insert(0, HERE)
from vlib import tlc, common

def main() -> int:
    bad = 0
    for f in sorted(glob.glob(os.path.join(tlc.SPEC_DIR, '*.tla'))):
        ok, out = tlc.sany(os.path.basename(f))
        print(('ok   ' if ok else 'FAIL ') + os.path.basename(f))
        if not ok:
            print(out)
            bad += 1
    common.import_repo()
    import autobean_refactor  # noqa: F401
    os.makedirs(common.EVIDENCE_DIR, exist_ok=True)
    os.makedirs(common.REPLAY_DIR, exist_ok=True)
    return 1 if bad else 0

if __name__ == '__main__':
    sys.exit(main())

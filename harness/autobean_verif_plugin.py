"""pytest plugin (lives in /verif, loaded with -p autobean_verif_plugin): turns the repository's own test
suite into a producer of token-store traces.  Active only when AUTOBEAN_VERIF_TRACE=1; writes the recorded
traces to $AUTOBEAN_VERIF_TRACE_OUT at session end.  Nothing in /repo is modified."""
from __future__ import annotations

import json
import os
import sys

HERE = os.path.dirname(os.path.abspath(__file__))
if HERE not in sys.path:
    sys.path.insert(0, HERE)

_REC = None


def pytest_configure(config):  # noqa: ANN001
    global _REC
    if os.environ.get('AUTOBEAN_VERIF_TRACE') != '1':
        return
    from vlib import storerec
    from autobean_refactor import token_store as ts
    lf = int(os.environ.get('AUTOBEAN_VERIF_LOAD_FACTOR', '0'))
    if lf >= 2:
        ts._LOAD_FACTOR = lf
        ts._DOUBLE_LOAD_FACTOR = lf * 2
        ts._HALF_LOAD_FACTOR = lf // 2
        ts._ONE_HALF_LOAD_FACTOR = lf + lf // 2
    storerec.MAX_EVENTS = 12
    _REC = storerec.Recorder()
    _REC.install()


def pytest_sessionfinish(session, exitstatus):  # noqa: ANN001
    if _REC is None:
        return
    _REC.uninstall()
    out = os.environ.get('AUTOBEAN_VERIF_TRACE_OUT')
    if out:
        traces = _REC.export()
        with open(out, 'w') as f:
            json.dump({'traces': traces[:int(os.environ.get('AUTOBEAN_VERIF_MAX_TRACES', '6000'))],
                       'recorded': len(traces), 'skipped_large_stores': _REC.skipped_large, 'events': _REC.events}, f)

"""Composed histories: edits of ALL kinds interleaved on one document (token assignments, optional slots,
repeated-field operations through every view, spacing, comment attribution, deep-copy-and-insert), driven by a
seeded random walk over the reflective API.  After every call:
  C05  Tree!WellFormed on the real tree
  C06  (while no syntax-breaking call was made) print -> re-parse -> same content
  C07 / C08  every store-level call is recorded and the traces are validated by TLC (TokenSeqTrace.tla)
The walk is randomized, the judgement is not: it is the same invariants / trace specification as elsewhere."""
from __future__ import annotations

import copy
import multiprocessing as mp
import random
from typing import Any, Optional

from vlib import common, doclib, tree, tracecheck

common.import_repo()
from autobean_refactor import models  # noqa: E402
from autobean_refactor.models import base  # noqa: E402
from autobean_refactor.models.internal.repeated import Repeated  # noqa: E402
from autobean_refactor.models.internal.surrounding_comments import SurroundingCommentsMixin  # noqa: E402
from autobean_refactor.models.internal.spacing_accessors import SpacingAccessorsMixin  # noqa: E402

SEED_DOCS = [
    '; head\n2000-01-01 open Assets:A USD, EUR "STRICT" ; ic\n    kk: 1\n; tail\n\n2000-01-02 close Assets:A\n',
    '2000-01-01 * "p" "n" #t ^l\n    kk: "v"\n    ; c\n    Assets:A  1 USD {2 EUR} @ 3 CAD\n        pk: 2\n    Assets:B\n',
    'option "a" "b"\n\n; standalone\n\n2000-01-01 note Assets:A "x" #t1 #t2\n2000-01-01 balance Assets:A 1 + 2 ~ 0.1 USD\n',
    '2000-01-01 custom "c" "s" 1 TRUE\n2000-01-01 price USD 1.5 EUR\n    kk: Assets:A\n* heading\n',
]


def wrappers_of(m: Any) -> list[str]:
    out = []
    for k in type(m).__mro__:
        for a, v in vars(k).items():
            if type(v).__name__ in ('repeated_node_property', 'repeated_node_with_interleaving_comments_property') and a not in out:
                out.append(a)
    return out


def one_walk(text: str, seed: int, steps: int, rec: Any, lf: int) -> tuple[list, int, bool]:
    """Returns (findings, calls made, syntax_intact)."""
    from checks import store_replay, tokedit, slots
    rng = random.Random(seed)
    store_replay.set_load_factor(lf)
    f = tree.parse(text)
    store = f.token_store
    if rec is not None:
        rec.observe(store)
    findings: list = []
    syntax_ok = True
    calls = 0
    history: list[str] = []
    for _ in range(steps):
        nodes = [m for p, m in tree.walk(f)]
        kind = rng.choice(['token', 'list', 'list', 'slot', 'spacing', 'claim', 'copyinsert'])
        desc = kind
        try:
            if kind == 'token':
                toks = [t for t in store if tokedit.ALTS.get(t.RULE)]
                if not toks:
                    continue
                t = rng.choice(toks)
                alt = rng.choice(tokedit.ALTS[t.RULE])
                if isinstance(t, models.BlockComment) and t.indent:
                    alt = '\n'.join(t.indent + l for l in alt.split('\n'))
                safe = ('DATE', 'NUMBER', 'ACCOUNT', 'CURRENCY', 'ESCAPED_STRING', 'TAG', 'LINK', 'META_KEY', 'BOOL',
                        'TRANSACTION_FLAG', 'POSTING_FLAG')
                if t.RULE in safe and hasattr(type(t), 'value') and rng.random() < 0.6:
                    v = type(t).from_raw_text(alt).value
                    desc = f'token {t.RULE} value={v!r}'
                    t.value = v
                else:
                    desc = f'token {t.RULE} raw_text={alt!r}'
                    syntax_ok = False          # raw-text overrides may break syntax: C06 no longer applies
                    t.raw_text = alt
            elif kind == 'list':
                owners = [(m, w) for m in nodes if isinstance(m, base.RawTreeModel) and not isinstance(m, Repeated) for w in wrappers_of(m)]
                if not owners:
                    continue
                m, wname = rng.choice(owners)
                w = getattr(m, wname)
                op = rng.choice(['append', 'insert', 'pop', 'delslice', 'setitem', 'extend', 'clear'])
                desc = f'{type(m).__name__}.{wname}.{op}'
                if op in ('append', 'insert', 'setitem', 'extend'):
                    if not len(w):
                        continue
                    donors = [copy.deepcopy(rng.choice(list(w))) for _ in range(2)]
                    if op == 'append':
                        w.append(donors[0])
                    elif op == 'insert':
                        w.insert(rng.randrange(-len(w) - 1, len(w) + 2), donors[0])
                    elif op == 'setitem':
                        w[rng.randrange(-len(w), len(w))] = donors[0]
                    else:
                        w.extend(donors)
                elif op == 'pop':
                    if len(w):
                        w.pop(rng.randrange(-len(w), len(w)))
                elif op == 'delslice':
                    a, b = sorted([rng.randrange(0, len(w) + 1), rng.randrange(0, len(w) + 1)])
                    del w[a:b]
                else:
                    if len(w) and rng.random() < 0.3:
                        w.clear()
            elif kind == 'slot':
                cands = [m for m in nodes if isinstance(m, base.RawTreeModel) and not isinstance(m, Repeated) and slots.schema(type(m))]
                if not cands:
                    continue
                m = rng.choice(cands)
                s = rng.choice(slots.schema(type(m)))
                if s['kind'] == 'rep' or s['name'] in ('raw_leading_comment', 'raw_trailing_comment', 'raw_indent'):
                    continue
                cur = getattr(m, s['name'])
                desc = f'{type(m).__name__}.{s["name"]}'
                if cur is not None and s['kind'] == 'opt' and rng.random() < 0.5:
                    setattr(m, s['name'], None)
                    desc += ' = None'
                elif cur is not None:
                    setattr(m, s['name'], copy.deepcopy(cur))
                    desc += ' = copy'
                else:
                    dn = slots.donors().node(type(m).__name__, s)
                    if dn is None:
                        continue
                    setattr(m, s['name'], copy.deepcopy(dn))
                    desc += ' = donor'
            elif kind == 'spacing':
                cands = [m for m in nodes if isinstance(m, SpacingAccessorsMixin) and m is not f]
                if not cands:
                    continue
                m = rng.choice(cands)
                side = rng.choice(['before', 'after'])
                val = rng.choice([' ', '  ', '\t', '\n', '\n\n', '', ' \n '])
                desc = f'{type(m).__name__}.spacing_{side} = {val!r}'
                syntax_ok = False
                setattr(m, 'spacing_' + side, val)
            elif kind == 'claim':
                mix = [m for m in nodes if isinstance(m, SurroundingCommentsMixin)]
                if not mix:
                    continue
                m = rng.choice(mix)
                op = rng.choice(['claim_leading_comment', 'unclaim_leading_comment', 'claim_trailing_comment',
                                 'unclaim_trailing_comment', 'auto_claim_comments'])
                desc = f'{type(m).__name__}.{op}()'
                try:
                    getattr(m, op)()
                except ValueError:
                    pass
            else:
                owners = [(m, w) for m in nodes if isinstance(m, base.RawTreeModel) and not isinstance(m, Repeated) for w in wrappers_of(m)
                          if len(getattr(m, w))]
                if not owners:
                    continue
                m, wname = rng.choice(owners)
                w = getattr(m, wname)
                desc = f'{type(m).__name__}.{wname}.append(deepcopy(item))'
                w.append(copy.deepcopy(rng.choice(list(w))))
        except (ValueError, IndexError, KeyError) as e:
            desc += f' -> refused {type(e).__name__}'
        except Exception as e:  # noqa: BLE001
            findings.append(('crash', f'{desc}: {type(e).__name__}: {e}', list(history) + [desc]))
            break
        calls += 1
        history.append(desc)
        if rec is not None:
            rec.observe(store)
        bad = tree.wellformed(f)
        if bad:
            findings.append(('tree', '; '.join(bad[:2]), list(history)))
            break
        if syntax_ok:
            t2 = tree.text_of(f)
            try:
                f2 = tree.parse(t2)
                if tree.content(f2) != tree.content(f):
                    findings.append(('reparse', f'content differs after re-parse of {t2!r}', list(history)))
                    break
            except Exception as e:  # noqa: BLE001
                findings.append(('reparse', f'{t2!r} does not parse ({type(e).__name__})', list(history)))
                break
    store_replay.set_load_factor(1000)
    return findings, calls, syntax_ok


def store_replay_rot(k: int) -> Any:
    from checks import store_replay
    return store_replay.rot(k)


def _chunk(arg: tuple) -> tuple[int, list, list]:
    from vlib import storerec
    seeds, texts, steps, record = arg
    rec = None
    if record:
        storerec.MAX_ROW = 110
        storerec.MAX_EVENTS = 40
        rec = storerec.Recorder()
        rec.install()
    out = []
    calls = 0
    try:
        for sd in seeds:
            text = texts[sd % len(texts)]
            fnd, n, _ = one_walk(text, sd, steps, rec, store_replay_rot(sd))
            calls += n
            for kind, msg, hist in fnd:
                out.append((kind, msg, text, hist, sd))
    finally:
        if rec is not None:
            rec.uninstall()
    return calls, out, (rec.export() if rec is not None else [])


def run(rep: common.Reporter, tier: str, prop: str) -> dict:
    seed = common.seed()
    kinds = {'C05': {'tree', 'crash'}, 'C06': {'reparse'}, 'C07': set(), 'C08': set()}[prop]
    n_walks = 600 if tier == 'quick' else 6000
    steps = 8 if tier == 'quick' else 12
    texts = list(SEED_DOCS)
    docs, _ = doclib.layouts(max_lines=4, accepted_only=True)
    rng = random.Random(seed)
    for d in rng.sample(docs, min(40, len(docs))):
        if len(d['lines']) >= 3 and not any(r['kind'] == 'skip' for r in d['rule']):      # (no ambiguous comment layouts)
            texts.append(doclib.render(d, rng.randrange(12)))
    record = prop in ('C07', 'C08')
    seeds = [seed * 100003 + k for k in range(n_walks)]
    calls = 0
    traces: list = []
    with mp.Pool(16) as pool:
        for n, out, tr in common.gmap(pool, rep, _chunk, [(ch, texts, steps, record) for ch in common.chunked(seeds, 20)]):
            calls += n
            traces.extend(tr)
            for kind, msg, text, hist, sd in out:
                if kind in kinds:
                    rep.violation(f'{prop}/composed/{kind}/{hist[-1].split(" ")[0] if hist else "?"}',
                                  {'what': msg, 'text': text, 'calls': hist, 'walk_seed': sd})
    res = {'states': 0, 'transitions': 0, 'behaviours': n_walks, 'calls': calls, 'sample': None}
    if record and traces:
        tv = tracecheck.validate_store_traces(traces)
        for e in tv['errors']:
            rep.machinery_error(f'composed trace validation: {e}')
        mine = {'C07': {'row', 'len', 'firstlast', 'index', 'nextprev', 'not-refused'}, 'C08': {'position', 'index'}}[prop]
        for ti, step, clause in tv['rejected']:
            if clause in mine:
                rep.violation(f'{prop}/composed-trace/{clause}', {'what': f'store trace of a composed history rejected at event {step}: {clause}',
                                                                 'trace': traces[ti]})
        res.update({'states': tv['tlc_states'], 'transitions': tv['tlc_transitions'], 'store_traces': len(traces),
                    'store_events': tv['events'], 'rejected': len(tv['rejected'])})
    return res

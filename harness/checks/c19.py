"""C19: a refused operation leaves the document exactly as it was.

Composition of the refusal sites of every specification module:
  RepList.tla     index/key errors, size-mismatched slices, attached donors at every batch position
  CostSpec.tla    the illegal cost combinations
  TokenSeqTrace   raw texts the token type cannot represent (refused assign = stutter)
  NumExpr.tla     arithmetic operands that cannot be consumed
  Slots.tla       attached donors in optional / required slots
"""
from __future__ import annotations

import sys

from vlib import common


def main(prop: str, tier: str) -> int:
    rep = common.Reporter('C19', tier)
    from checks import replist_check, c09
    replist_check.main('C19', tier, rep=rep, finish=False)
    cp = c09.cost_part(rep, tier, kinds={'refusal'})
    parts = {'cost': {k: v for k, v in cp.items() if k not in ('sample', 'design_deviations_of_transcribed_algorithm')}}
    rep.cov['states'] = rep.cov.get('states', 0) + cp.get('states', 0)
    rep.cov['transitions'] = rep.cov.get('transitions', 0) + cp.get('transitions', 0)
    rep.cov['traces_validated_against_impl'] = rep.cov.get('traces_validated_against_impl', 0) + cp.get('behaviours', 0)
    for modname, fn in (('checks.tokedit', 'refusal_part'), ('checks.numexpr', 'refusal_part'), ('checks.slots', 'refusal_part'),
                       ('checks.c17', 'refusal_part'), ('checks.txnstrings', 'refusal_part')):
        try:
            mod = __import__(modname, fromlist=[fn])
            f = getattr(mod, fn, None)
            if f is None:
                continue
            p = f(rep, tier)
            parts[modname.split('.')[-1]] = {k: v for k, v in p.items() if k != 'sample'}
            rep.cov['states'] += p.get('states', 0)
            rep.cov['transitions'] += p.get('transitions', 0)
            rep.cov['traces_validated_against_impl'] += p.get('behaviours', 0)
        except ImportError:
            pass
    from checks import comments
    cm = comments.run(rep, 'quick', 'C19')
    parts['comment_claims'] = {k: v for k, v in cm.items() if k != 'sample'}
    rep.cov['states'] += cm.get('states', 0)
    rep.cov['transitions'] += cm.get('transitions', 0)
    rep.cov['traces_validated_against_impl'] += cm.get('behaviours', 0)
    rep.cov['parts'] = parts
    return rep.finish()


if __name__ == '__main__':
    sys.exit(main('C19', sys.argv[1] if len(sys.argv) > 1 else 'quick'))

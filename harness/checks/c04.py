"""C04: operations that are not edits never change the document.

Attribution calls: recorded and validated against CommentOwnership.tla (visible token row and printed
text may not change on any event).  Reads: every attribute / view / comparison / copy / print on every
reachable model of Layout.tla documents, with the visible token row compared before and after."""
from __future__ import annotations

import copy
import multiprocessing as mp
import sys
from typing import Any

from vlib import common, doclib, tree
from checks import comments, composite

common.import_repo()
from autobean_refactor.models import base  # noqa: E402

SKIP_ATTRS = {'detach', 'pop', 'clear', 'wrap_with_parenthesis', 'into_unit_cost', 'into_total_cost', 'reattach', 'clone'}
READ_METHODS = ('keys', 'values', 'items')


def read_everything(m: Any) -> int:
    n = 0
    for name in dir(type(m)):
        if name.startswith('_') or name in SKIP_ATTRS:
            continue
        attr = getattr(type(m), name, None)
        if callable(attr) and not isinstance(attr, property) and not hasattr(attr, '__get__'):
            continue
        if callable(attr) and not hasattr(attr, '_get') and not isinstance(attr, property):
            continue
        try:
            v = getattr(m, name)
        except Exception:  # noqa: BLE001
            continue
        n += 1
        if callable(v):
            continue
        try:
            if hasattr(v, '__iter__') and not isinstance(v, (str, bytes)):
                lst = list(v)
                len(v) if hasattr(v, '__len__') else None
                for i in range(-len(lst) - 1, len(lst) + 1):
                    try:
                        v[i]
                    except (IndexError, TypeError, KeyError):
                        pass
                if lst:
                    lst[0] in v
                for meth in READ_METHODS:
                    if hasattr(v, meth):
                        list(getattr(v, meth)())
            v == v
            repr(v)
        except Exception:  # noqa: BLE001
            pass
    return n


def non_edits(f: Any) -> int:
    n = 0
    nodes = [m for p, m in tree.walk(f)]
    for m in nodes:
        n += read_everything(m)
        m == m
        m != nodes[0]
        if isinstance(m, base.RawTokenModel):
            hash(m)
        copy.deepcopy(m) if not type(m).__name__ == 'Repeated' or True else None
        tree.text_of(m)
        m.tokens
    for a in nodes[:6]:
        for b in nodes[:6]:
            a == b
    return n


def _chunk(arg: tuple) -> tuple[int, int, list]:
    flavors, docs = arg
    out = []
    reads = ndocs = 0
    for d in docs:
        for fl in flavors:
            text = doclib.render(d, fl)
            for ac in (True, False):
                try:
                    f = tree.parse(text, auto_claim_comments=ac)
                except Exception:  # noqa: BLE001
                    continue
                ndocs += 1
                before = [(id(t), t.raw_text) for t in f.token_store if t.raw_text]
                try:
                    reads += non_edits(f)
                except Exception as e:  # noqa: BLE001
                    out.append(('read-raised', f'{type(e).__name__}: {e}', text))
                after = [(id(t), t.raw_text) for t in f.token_store if t.raw_text]
                if after != before or tree.text_of(f) != text:
                    out.append(('reads-changed-document', f'{text!r} -> {tree.text_of(f)!r}', text))
    return ndocs, reads, out


def main(prop: str, tier: str) -> int:
    rep = common.Reporter('C04', tier)
    composite.add_part(rep, 'attribution_calls', comments.run(rep, tier, 'C04'))
    docs, r = doclib.layouts(max_lines=3 if tier == 'quick' else 4, accepted_only=True)
    ndocs = reads = 0
    with mp.Pool(16) as pool:
        for nd, nr, out in common.gmap(pool, rep, _chunk, [([common.seed() % 12], ch) for ch in common.chunked(docs, 40)]):
            ndocs += nd
            reads += nr
            for kind, msg, text in out:
                if kind == 'read-raised':
                    continue
                rep.violation(f'C04/{kind}', {'what': msg, 'text': text})
    from checks import inserted_comments
    composite.add_part(rep, 'inserted_comments_between_fields', inserted_comments.run(rep, tier, {'text'}))
    rep.cov['read_only'] = {'documents': ndocs, 'attribute_reads': reads}
    rep.cov['states'] = rep.cov.get('states', 0) + r.distinct
    rep.cov['transitions'] = rep.cov.get('transitions', 0) + r.generated
    rep.cov['traces_validated_against_impl'] = rep.cov.get('traces_validated_against_impl', 0) + ndocs
    rep.assumptions += ['zero-argument methods are not called except the documented read-only ones (keys/values/items); '
                        'mutators such as detach/pop/clear are not "non-edits"']
    return rep.finish()


if __name__ == '__main__':
    sys.exit(main('C04', sys.argv[1] if len(sys.argv) > 1 else 'quick'))

"""C08 = token-store level (BlockStore.tla / TokenSeq.tla) + document level (token assignments)."""
from __future__ import annotations

import json
import os
import sys

from vlib import common


def main(prop: str, tier: str) -> int:
    from checks import store_check, tokedit
    rc1 = store_check.main('C08', tier)
    ev1 = json.load(open(os.path.join(common.EVIDENCE_DIR, 'C08.json')))
    rc2 = tokedit.main('C08', tier)
    ev2 = json.load(open(os.path.join(common.EVIDENCE_DIR, 'C08.json')))
    # merge the two evidence records (store level first)
    cov = dict(ev1['coverage'])
    for k in ('states', 'transitions', 'traces_validated_against_impl'):
        cov[k] = ev1['coverage'].get(k, 0) + ev2['coverage'].get(k, 0)
    cov['document_level'] = {k: v for k, v in ev2['coverage'].items() if k not in ('samples',)}
    from checks import pos_proof
    pp = pos_proof.run()
    cov['position_monoid_proof'] = pp
    if pp.get('available') and not pp.get('timed_out') and not pp.get('all_proved'):
        print('MACHINERY-ERROR: tlapm did not prove the Position monoid laws: ' + pp.get('tail', ''))
        rc1 = max(rc1, 2)
    cov['samples'] = ev1['coverage'].get('samples', [])[:2] + ev2['coverage'].get('samples', [])[:1]
    kf = dict(ev1['coverage'].get('known_findings_seen', {}))
    kf.update(ev2['coverage'].get('known_findings_seen', {}))
    cov['known_findings_seen'] = kf
    ev = dict(ev1)
    ev['coverage'] = cov
    ev['assumptions'] = ev1.get('assumptions', []) + ev2.get('assumptions', [])
    ev['wall_s'] = round(ev1['wall_s'] + ev2['wall_s'], 2)
    ev['violations'] = ev1.get('violations', 0) + ev2.get('violations', 0)
    with open(os.path.join(common.EVIDENCE_DIR, 'C08.json'), 'w') as f:
        json.dump(ev, f, indent=1)
    return max(rc1, rc2)


if __name__ == '__main__':
    sys.exit(main('C08', sys.argv[1]))

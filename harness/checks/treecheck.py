"""B4: Tree.tla evaluated by TLC on dumps of real trees (sound and deliberately corrupted), compared clause
by clause with the Python transliteration used everywhere else (vlib/tree.py::_wf)."""
from __future__ import annotations

import copy
import json
import os
import random
import tempfile
from typing import Any

from vlib import common, doclib, tlc, tree

common.import_repo()
from autobean_refactor import models  # noqa: E402


def corrupt(f: Any, rng: random.Random) -> str:
    """Damage a parsed document in memory in one of several ways; returns what was done."""
    store = f.token_store
    toks = list(store)
    how = rng.choice(['remove-token', 'swap-children', 'foreign-child', 'dup-leaf', 'none', 'none'])
    try:
        if how == 'remove-token':
            sig = [t for t in toks if tree.is_significant(t) and t.raw_text]
            if sig:
                store.remove(rng.choice(sig))
        elif how == 'swap-children':
            ds = [d for d in f.raw_directives_with_comments]
            if len(ds) >= 2:
                rep = f.raw_directives_with_comments.repeated
                rep.items[0], rep.items[-1] = rep.items[-1], rep.items[0]
        elif how == 'foreign-child':
            ds = [d for d in f.raw_directives if hasattr(d, '_date')]
            if ds:
                ds[0]._date = models.Date.from_value(__import__('datetime').date(2001, 2, 3))
        elif how == 'dup-leaf':
            ds = [d for d in f.raw_directives if hasattr(d, '_date') and hasattr(d, '_account')]
            if len(ds) >= 2:
                ds[1]._date = ds[0]._date
    except Exception:  # noqa: BLE001
        return 'none'
    return how


def run(rep: common.Reporter, tier: str) -> dict:
    seed = common.seed()
    rng = random.Random(seed + 99)
    docs, r = doclib.layouts(max_lines=4, accepted_only=True)
    docs = rng.sample(docs, min(len(docs), 400 if tier == 'quick' else 3000))
    dumps = []
    py = []
    hows = []
    for d in docs:
        text = doclib.render(d, rng.randrange(12))
        try:
            f = tree.parse(text, auto_claim_comments=rng.random() < 0.7)
        except Exception:  # noqa: BLE001
            continue
        hows.append(corrupt(f, rng))
        try:
            dd = tree.dump(f)
        except Exception:  # noqa: BLE001
            hows.pop()
            continue
        dd['selfcontained'] = True
        dumps.append(dd)
        py.append(tree.wellformed_tags(f, self_contained=True))
    fd, path = tempfile.mkstemp(prefix='verif_dumps_', suffix='.json')
    verdicts: dict = {}
    try:
        with os.fdopen(fd, 'w') as fh:
            json.dump(dumps, fh)
        res = tlc.run('Tree', {}, init='TInit', next='TNext', constraints=['Report'], workers=1, env={'TRACE_FILE': path},
                      timeout=1200, print_prefixes=('VERDICT',), on_print=lambda p: verdicts.__setitem__(p[1], sorted(json.loads(p[2]))))
    finally:
        os.unlink(path)
    if not res.ok:
        rep.machinery_error(f'Tree.tla evaluation failed: {res.violated} {res.tail[-600:]}')
    agree = disagree = flagged = 0
    for k, tags in enumerate(py, 1):
        v = verdicts.get(k)
        if v is None:
            rep.machinery_error(f'Tree.tla gave no verdict for dump {k}')
            continue
        if v == tags:
            agree += 1
        else:
            disagree += 1
            if disagree <= 3:
                rep.machinery_error(f'Tree.tla and its Python transliteration disagree on a dump ({hows[k - 1]}): TLA+ {v}, Python {tags}')
        if v:
            flagged += 1
    if flagged == 0:
        rep.machinery_error('sensitivity: no corrupted dump was flagged by Tree.tla')
    return {'states': res.distinct, 'transitions': res.generated, 'behaviours': len(dumps), 'agree': agree, 'disagree': disagree,
            'dumps_flagged_by_both': flagged, 'corruptions': {h: hows.count(h) for h in set(hows)}, 'sample': None}

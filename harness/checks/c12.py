"""C12: token value, raw text and lexer agree.  TokenCodec.tla (codecs over character classes, laws checked
by TLC, token state machine under assignment sequences) replayed on the real token classes and lexer."""
from __future__ import annotations

import datetime
import decimal
import itertools
import json
import multiprocessing as mp
import sys
from typing import Any, Optional

from vlib import common, tlc, tree

common.import_repo()
from autobean_refactor import models  # noqa: E402

REPS = {'p': ['a', 'é', '\U0001F600'], 's': [' '], ';': [';'], 'q': ['"'], 'b': ['\\'], 'n': ['n', 't', 'r'],
        'L': ['\n'], 'CL': ['\r\n'], 'CCL': ['\r\r\n'], 'x': ['\x0c', '\x85', ' '], 'ctl': ['\n']}
CLS = {'string': models.EscapedString, 'block': models.BlockComment, 'inline': models.InlineComment}


def conc(classes: list, rep: int) -> str:
    return ''.join(REPS[c][rep % len(REPS[c])] for c in classes)      # (position-independent: raw and value must agree)


def lex_one(raw: str, cls: Any) -> Optional[Any]:
    try:
        return tree.get_parser().parse_token(raw, cls)
    except Exception:  # noqa: BLE001
        return None


def host_roundtrip(kind: str, raw: str, value: str) -> Optional[str]:
    if kind == 'string':
        text = f'2000-01-01 note Assets:A {raw}\n'
        pick = lambda f: f.raw_directives[0].raw_comment if hasattr(f.raw_directives[0], 'raw_comment') else None
    elif kind == 'block':
        text = raw + '\n2000-01-01 close Assets:A\n' if not raw.startswith(' ') else '2000-01-01 open Assets:A\n' + raw + '\n'
        pick = None
    else:
        text = f'2000-01-01 close Assets:A {raw}\n'
        pick = None
    try:
        f = tree.parse(text)
    except Exception as e:  # noqa: BLE001
        return f'host document {text!r} does not parse: {type(e).__name__}'
    if tree.text_of(f) != text:
        return f'host document {text!r} prints {tree.text_of(f)!r}'
    toks = [t for t in f.token_store if isinstance(t, CLS[kind])]
    if kind == 'block' and len(toks) != 1:
        return f'host document {text!r}: expected one block comment token, found {len(toks)}'
    if not toks:
        return f'host document {text!r}: token not found'
    t = toks[0]
    if t.raw_text != raw:
        return f'host document {text!r}: token text {t.raw_text!r} is not {raw!r}'
    if t.value != value:
        return f'host document {text!r}: token value {t.value!r} is not {value!r}'
    return None


def replay(b: dict, rep: int) -> tuple[list, int]:
    kind = b['kind']
    cls = CLS[kind]
    out: list = []
    drift = 0
    tok = None
    for k, st in enumerate(b['steps']):
        v = conc(st['value'], rep)
        ind = conc(st['indent'], rep)
        exp_raw = conc(st['raw'], rep)
        lossy = kind == 'inline' and v.startswith(' ')
        fp = 'C12/inline-leading-blank' if lossy else f'C12/{kind}/{st["op"]}'
        try:
            if st['op'] == 'from_value':
                tok = cls.from_value(v, indent=ind) if kind == 'block' else cls.from_value(v)
            elif st['op'] == 'value':
                tok.value = v
            elif st['op'] == 'indent':
                tok.indent = ind
            else:                      # 'raw' (canonical lexeme of a value) and 'rawlex' (any lexeme of the terminal)
                tok.raw_text = exp_raw
        except Exception as e:  # noqa: BLE001
            out.append((fp, f'{st["op"]} with value {v!r}: {type(e).__name__}: {e}'))
            break
        if tok.raw_text != exp_raw:
            drift += 1          # another (possibly equally good) spelling: judged by the properties below
        if st['op'] not in ('raw',) and tok.value != v:
            out.append((fp, f'after {st["op"]}: value reads {tok.value!r}, assigned {v!r}'))
        raw = tok.raw_text
        val = tok.value
        # value and raw text describe each other
        try:
            again = cls.from_raw_text(raw)
            if again.value != val or (kind == 'block' and again.indent != tok.indent):
                out.append((fp, f'raw text {raw!r} means {again.value!r} but the token says {val!r}'))
            if again.raw_text != raw:
                out.append((fp, f'from_raw_text({raw!r}) keeps {again.raw_text!r}'))
        except Exception as e:  # noqa: BLE001
            out.append((fp, f'from_raw_text({raw!r}) raised {type(e).__name__}'))
        # lexed back as exactly one token of the type with the value
        lx = lex_one(raw, cls)
        if lx is None:
            out.append((fp, f'raw text {raw!r} (value {val!r}) is not lexed as one {cls.__name__}'))
        elif lx.value != val:
            out.append((fp, f'raw text {raw!r} lexes to value {lx.value!r}, token value is {val!r}'))
        elif k == len(b['steps']) - 1:
            msg = host_roundtrip(kind, raw, val)
            if msg:
                out.append((fp, msg))
    return out, drift


def _chunk(items: list) -> tuple[int, list]:
    out = []
    drift = 0
    for n, s in items:
        b = json.loads(s)
        for rep in ((n % 3,) if len(b['steps']) > 1 else (0, 1, 2)):
            fnd, d = replay(b, rep)
            drift += d
            for fp, msg in fnd:
                out.append((fp, msg, b))
    return drift, out


# ---------------------------------------------------------------------------
def dates_numbers_simple(rep: common.Reporter) -> dict:
    n = 0
    P = tree.get_parser()

    def check_value(cls: Any, v: Any, what: str) -> None:
        nonlocal n
        n += 1
        try:
            t = cls.from_value(v)
        except Exception as e:  # noqa: BLE001
            rep.violation(f'C12/{what}/from_value', {'what': f'{cls.__name__}.from_value({v!r}) raised {type(e).__name__}: {e}'})
            return
        if t.value != v:
            rep.violation(f'C12/{what}/value', {'what': f'{cls.__name__}.from_value({v!r}).value = {t.value!r}'})
        lx = lex_one(t.raw_text, cls)
        if lx is None or lx.value != v:
            rep.violation(f'C12/{what}/lex', {'what': f'{cls.__name__}.from_value({v!r}) writes {t.raw_text!r}, lexed back as '
                                                      f'{None if lx is None else lx.value!r}'})

    def check_lexeme(cls: Any, raw: str, what: str, value: Any = None) -> None:
        nonlocal n
        n += 1
        if not tree.lexes_as(raw, cls.RULE):
            return      # not a lexeme of the real grammar: my list is wrong, not the code
        try:
            t = cls.from_raw_text(raw)
        except Exception as e:  # noqa: BLE001
            rep.violation(f'C12/{what}/from_raw_text', {'what': f'{cls.__name__}.from_raw_text({raw!r}) raised {type(e).__name__}: {e}'})
            return
        if t.raw_text != raw:
            rep.violation(f'C12/{what}/verbatim', {'what': f'{cls.__name__}.from_raw_text({raw!r}) keeps {t.raw_text!r}'})
        if value is not None and hasattr(t, 'value') and t.value != value:
            rep.violation(f'C12/{what}/meaning', {'what': f'{cls.__name__}.from_raw_text({raw!r}).value = {t.value!r}, expected {value!r}'})
        if hasattr(t, 'value'):
            check_value(cls, t.value, what)
            # assignment sequences: value and raw text keep describing each other
            for raw2 in (raw, ):
                t.value = t.value
                if type(t).from_raw_text(t.raw_text).value != t.value:
                    rep.violation(f'C12/{what}/agree', {'what': f'{raw!r}: after value = value the raw text {t.raw_text!r} means something else'})

    D = datetime.date
    for d in [D(1, 1, 1), D(9, 9, 9), D(99, 12, 31), D(999, 1, 1), D(1000, 1, 1), D(1999, 12, 31), D(2000, 2, 29), D(2024, 2, 29),
              D(2001, 1, 9), D(2001, 10, 1), D(9999, 12, 31)] + [D(1900 + 7 * k, 1 + k % 12, 1 + (k * 5) % 28) for k in range(40)]:
        check_value(models.Date, d, 'date')
    for raw, v in [('2000-01-02', D(2000, 1, 2)), ('2000-1-2', D(2000, 1, 2)), ('2000/01/02', D(2000, 1, 2)), ('2000-1/2', D(2000, 1, 2)),
                   ('2000/1-02', D(2000, 1, 2)), ('02000-01-02', D(2000, 1, 2)), ('0999-12-31', D(999, 12, 31))]:
        check_lexeme(models.Date, raw, 'date', v)
    Dc = decimal.Decimal
    for s in ['0', '1', '10', '1.5', '1.50', '0.1', '0.0000001', '1E+3', '1E-7', '123456789.123456789', '1000000', '0.00', '0E-7', '12345678901234567890.5']:
        check_value(models.Number, Dc(s), 'number')
    for raw, v in [('1', Dc(1)), ('007', Dc(7)), ('1.', Dc(1)), ('1,234', Dc(1234)), ('1,234,567.89', Dc('1234567.89')), ('0.10', Dc('0.10')),
                   ('12,345.', Dc(12345)), ('1234567', Dc(1234567))]:
        check_lexeme(models.Number, raw, 'number', v)
    simple = {
        models.Account: ['Assets:A', 'Assets:Cash-1:X', 'Éxpenses:Ünï', 'A1:B', 'Liabilities:9Lives', 'Assets:a'],
        models.Currency: ['USD', 'AB', "A.B'C-D_E", 'A1', '/ES', '/6E.X', 'X', 'TRUE2'],
        models.Tag: ['#t', '#a-b_c/d.e', '#123'],
        models.Link: ['^l', '^a-b_c/d.e', '^123'],
        models.MetaKey: ['kk:', 'a1:', 'aB-c_d:', 'k:'],
        models.Bool: ['TRUE', 'FALSE'],
        models.Null: ['NULL'],
        models.TransactionFlag: ['*', '!', 'txn', 'P', '&', '#', '?', '%'],
        models.PostingFlag: ['*', '!', 'M', '&'],
        models.InlineComment: [';', '; x', ';x', ';;  y', '; trailing  '],
        models.BlockComment: ['; c', ';c', ';', '    ; i1\n    ; i2', ';a\n; b', '\t;t'],
        models.EscapedString: ['""', '"a"', '"a\\"b"', '"a\\\\"', '"multi\nline"', '"\\n\\t\\x"'],
        models.Indent: ['  ', '\t', '    '],
    }
    for cls, lexemes in simple.items():
        for raw in lexemes:
            check_lexeme(cls, raw, cls.__name__.lower())
    # non-canonical lexemes followed by indent / value / raw_text assignments: value and raw text must keep
    # describing each other and the raw text must stay ONE lexeme of the type
    zoo = ['; c', ';c', ';', '\t; foo\n  ;bar', '  ; see:\n      ; nested', ';a\n; b', ';;x\n;', '    ;\n    ; x', '; a\r\n; b']
    for raw in zoo:
        if not tree.lexes_as(raw, 'BLOCK_COMMENT'):
            continue
        for seq in (['indent='], ['indent=  '], ['indent=\t', 'indent='], ['value=same'], ['indent=', 'value=same'], ['raw=same', 'indent=    ']):
            n += 1
            try:
                t = models.BlockComment.from_raw_text(raw)
                for stp in seq:
                    k, _, a = stp.partition('=')
                    if k == 'indent':
                        t.indent = a
                    elif k == 'value':
                        t.value = t.value
                    else:
                        t.raw_text = t.raw_text
                    again = models.BlockComment.from_raw_text(t.raw_text)
                    if (again.indent, again.value) != (t.indent, t.value):
                        rep.violation('C12/blockcomment/agree', {'what': f'{raw!r} after {seq}: raw text {t.raw_text!r} means '
                                                                         f'{(again.indent, again.value)!r}, token says {(t.indent, t.value)!r}'})
                        break
                    if not tree.lexes_as(t.raw_text, 'BLOCK_COMMENT'):
                        rep.violation('C12/blockcomment/lexeme', {'what': f'{raw!r} after {seq}: raw text {t.raw_text!r} is not one BLOCK_COMMENT lexeme'})
                        break
            except Exception as e:  # noqa: BLE001
                rep.violation('C12/blockcomment/crash', {'what': f'{raw!r} after {seq}: {type(e).__name__}: {e}'})
    return {'value_and_lexeme_cases': n}


def main(prop: str, tier: str) -> int:
    rep = common.Reporter('C12', tier)
    runs = []
    alpha_full = '{"p","s",";","q","b","n","L","CL","CCL","x"}'
    if tier == 'quick':
        runs = [dict(Alphabet=alpha_full, MaxLen='3', Kinds='{"string","block","inline"}', Indents='{<<>>, <<"s","s">>}', Depth='0'),
                dict(Alphabet='{"p","s",";","q","b","L","CL"}', MaxLen='1', Kinds='{"string","block","inline"}', Indents='{<<>>, <<"s","s">>}', Depth='2'),
                # every lexeme of the string terminal over quotes, backslashes, line ends (bodies <= 3 classes)
                dict(Alphabet='{"p","q","b","L","CL"}', MaxLen='3', Kinds='{"string"}', Indents='{<<>>}', Depth='1')]
    else:
        runs = [dict(Alphabet=alpha_full, MaxLen='4', Kinds='{"string","block","inline"}', Indents='{<<>>, <<"s","s">>}', Depth='0'),
                dict(Alphabet='{"p","s",";","q","b","n","L","CL"}', MaxLen='1', Kinds='{"string","block","inline"}', Indents='{<<>>, <<"s","s">>}', Depth='3'),
                dict(Alphabet='{"p","s",";","L"}', MaxLen='2', Kinds='{"block","inline"}', Indents='{<<>>, <<"s","s">>}', Depth='2'),
                dict(Alphabet='{"p","q","b","n","L","CL","CCL"}', MaxLen='3', Kinds='{"string"}', Indents='{<<>>}', Depth='1')]
    states = transitions = nb = drift = 0
    samples = []
    with mp.Pool(16) as pool:
        for c in runs:
            behs: list[str] = []
            r = tlc.run('TokenCodec', c, invariants=['Agree', 'LeadingBlankLoss'], constraints=['Emit'],
                        on_print=lambda p: behs.append(p[1]), timeout=3000)
            if not r.ok:
                rep.machinery_error(f'TokenCodec TLC run failed: {r.violated} {r.tail[-600:]}')
                continue
            states += r.distinct
            transitions += r.generated
            nb += len(behs)
            if behs:
                samples.append(json.loads(behs[len(behs) // 2]))
            for d, out in common.gmap(pool, rep, _chunk, list(common.chunked(list(enumerate(behs)), 300))):
                drift += d
                for fp, msg, b in out:
                    rep.violation(fp, {'what': msg, 'behaviour': b})
    extra = dates_numbers_simple(rep)
    rep.cov.update({'states': states, 'transitions': transitions, 'traces_validated_against_impl': nb, 'codec_spelling_drift': drift,
                    'samples': samples, 'exhaustive': True, **extra,
                    'rule': 'every character-class string up to MaxLen (3 concrete representatives per class) through from_value, '
                            'and every value / indent / raw_text assignment sequence up to Depth'})
    rep.assumptions += ['character classes with a few representatives stand for all Unicode strings; dates, numbers and the simple '
                        'token types are covered by shape lists (not modelled in TLA+)',
                        'comment values: every CR belongs to a \\r*\\n line end; inline comments contain no line break; Number is unsigned']
    return rep.finish()


if __name__ == '__main__':
    sys.exit(main('C12', sys.argv[1] if len(sys.argv) > 1 else 'quick'))

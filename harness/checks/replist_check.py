"""C10 / C03 / C06 / C05 / C19 on repeated fields: RepList.tla behaviours replayed on every
repeated-field family of the library (spec -> code), all observations compared after every call."""
from __future__ import annotations

import json
import multiprocessing as mp
import sys
from typing import Any

from vlib import common, tlc, listhost, listreplay

ALL_OPS = ('{"append","extend","insert","pop","delitem","delslice","setitem","setslice","clear","remove",'
           '"discard","mset","mdel","mpop","edit","iadd","reverse","msetdefault","mupdate","mpopitem"}')
INVS = ['ClaimOK', 'FrameOK', 'RefusalOK', 'NoDupItems', 'TypeOK']

KINDS = {
    'C10': {'exc', 'views', 'pyread'},
    'C03': {'text', 'frame'},
    'C06': {'reparse'},
    'C05': {'tree', 'popped'},
    'C19': {'refusal', 'exc'},
}


def constants(h: listhost.Host, *, depth: int, lens: str, mode: str, idx: str = '-4..4', batch: int = 2,
              steps: str = '{NoneV, 1, 2, -1, -2}',
              maxlen: int = 5, ops: str = ALL_OPS, attached: bool = True) -> dict[str, str]:
    return dict(Types=h.tla_types(), InitTypeSet=h.tla_init_types(), Views=h.tla_views(), Vals='1..2',
                InPlace='{' + ', '.join(f'"{t}"' for t in getattr(h, 'inplace_types', h.types)) + '}',
                InitLens=lens, MaxLen=str(maxlen), MaxBatch=str(batch), IdxDom=idx, StepDom=steps, SliceMode=f'"{mode}"',
                Ops=ops, Depth=str(depth), Attached='TRUE' if attached else 'FALSE')


D2_OPS = '{"insert","pop","setitem","setslice","delslice","extend","mset","mdel","edit","remove","reverse","msetdefault"}'
D3_OPS = '{"insert","pop","setslice","extend","edit","mset"}'


def plans(prop: str, tier: str) -> list[dict]:
    """Which (host, constants) TLC runs make up the check.  TLC -simulate is not used here: it
    evaluates every successor of every visited state (~1000 per state with full argument
    domains), which made 600 random walks take more than 20 minutes; deeper histories are
    instead enumerated exhaustively over reduced argument menus (seed-dependent)."""
    out = []
    seed = common.seed()
    idx2 = ['{-1,0}', '{-2,1}', '{-1,1}', '{0,2}'][seed % 4]
    for h in listhost.HOSTS.values():
        single = len(h.types) == 1
        many = len(h.types) >= 3
        if tier == 'quick':
            out.append(dict(host=h, layouts='all',
                            c=constants(h, depth=1, lens='0..3' if (single or h.init_types and len(h.init_types) == 1) else '0..2',
                                        mode='all' if single else 'class')))
            if h.name in ('open.currencies', 'note.tags_links', 'open.meta', 'txn.postings'):
                out.append(dict(host=h, layouts='rotate',
                                c=constants(h, depth=2, lens='{2}', mode='class', idx=idx2, steps='{NoneV}', batch=1,
                                            attached=False, ops=D2_OPS)))
        else:
            out.append(dict(host=h, layouts='all',
                            c=constants(h, depth=1, lens='0..3', mode='class' if many else 'all', maxlen=6,
                                        batch=3 if single else 2)))
            out.append(dict(host=h, layouts='rotate',
                            c=constants(h, depth=2, lens='{1}' if many else '{1,2}', mode='class', idx='{-1,0,1}',
                                        steps='{NoneV,-1}' if not many else '{NoneV}', batch=1, attached=False, ops=D2_OPS)))
            out.append(dict(host=h, layouts='rotate',
                            c=constants(h, depth=3, lens='{1}', mode='class', idx=idx2, steps='{NoneV}', batch=1,
                                        attached=False, ops=D3_OPS)))
    return out


def _replay_chunk(arg: tuple) -> tuple[int, int, int, list]:
    hname, check, layouts, items = arg
    h = listhost.HOSTS[hname]
    from checks import store_replay
    out = []
    steps = replays = drift = 0
    for k, s in items:
        beh = json.loads(s)
        store_replay.set_load_factor(([1000, 2, 3, 4] + store_replay.ROTATION)[k % 13])      # edits straddle block boundaries in most replays
        for layout in (range(h.n_layouts) if layouts == 'all' else [k % h.n_layouts]):
            try:
                r = listreplay.Replay(h, beh, layout, check=set(check))
                f = r.run()
                steps += r.steps_done
                drift += r.drift
                replays += 1
            except Exception as e:  # noqa: BLE001
                where = common.raised_in_repo(e)
                if where:
                    out.append(('unobservable', f'{hname}/unobservable',
                                {'step': 0, 'layout': layout, 'behaviour': beh,
                                 'what': f'the document cannot be read any more: {type(e).__name__}: {e} (raised in {where})'}, 0, layout))
                else:
                    out.append(('machinery', f'{hname} layout {layout}: {type(e).__name__}: {e}', beh, 0, layout))
                continue
            for step, kind, fp, msg in f:
                out.append((kind, fp, {'step': step, 'layout': layout, 'what': msg, 'behaviour': beh}, 0, layout))
    store_replay.set_load_factor(1000)
    return replays, steps, drift, out


def main(prop: str, tier: str, rep: common.Reporter | None = None, finish: bool = True) -> Any:
    own = rep is None
    rep = rep or common.Reporter(prop, tier)
    check = KINDS[prop]
    seed = common.seed()
    states = transitions = replays = steps = behaviours = drift = 0
    runs = []
    samples: list = []
    with mp.Pool(16) as pool:
        for plan in plans(prop, tier):
            h = plan['host']
            behs: list[str] = []
            r = tlc.run('RepList', plan['c'], invariants=INVS, constraints=['Emit'],
                        on_print=lambda p: behs.append(p[1]), timeout=3000)
            runs.append({'host': h.name, 'mode': 'exhaustive',
                         'constants': {k: v for k, v in plan['c'].items() if k not in ('Views', 'Types')},
                         'distinct': r.distinct, 'generated': r.generated, 'behaviours': len(behs),
                         'ok': r.ok, 'wall_s': round(r.wall_s, 1)})
            if not r.ok:
                rep.machinery_error(f'RepList TLC run for {h.name} failed: {r.violated} {r.tail[-600:]}')
                continue
            states += r.distinct
            transitions += r.generated
            behaviours += len(behs)
            if behs and len(samples) < 3:
                samples.append({'host': h.name, 'behaviour': json.loads(behs[len(behs) // 2])})
            jobs = [(h.name, sorted(check), plan['layouts'], ch) for ch in common.chunked(list(enumerate(behs)), 100)]
            for nrep, nsteps, ndrift, out in common.gmap(pool, rep, _replay_chunk, jobs):
                drift += ndrift
                replays += nrep
                steps += nsteps
                for kind, fp, detail, _, _ in out:
                    if kind == 'machinery':
                        rep.machinery_error(fp)
                    elif kind == 'unobservable':
                        rep.violation(fp, detail)
                    elif kind in check:
                        if kind == 'exc' and prop == 'C19' and '/attached/' not in fp:
                            # wrong exception class on index/key errors: C10's business unless the call
                            # was supposed to be refused and was not / document changed (kind 'refusal')
                            if 'expected no exception' in detail['what']:
                                continue
                        if kind == 'exc' and prop == 'C10' and '/attached/' in fp:
                            continue
                        rep.violation(fp if fp.startswith('custom.values/negative') else f'{fp}/{kind}', detail)
    rep.cov.update({
        'states': (rep.cov.get('states', 0) + states) or 1,
        'transitions': (rep.cov.get('transitions', 0) + transitions) or 1,
        'traces_validated_against_impl': rep.cov.get('traces_validated_against_impl', 0) + replays,
        'replist_behaviours': behaviours, 'replist_replays': replays, 'replist_steps': steps, 'replist_drift': drift,
        'replist_runs': runs,
        'samples': rep.cov.get('samples', []) + samples,
    })
    rep.assumptions += [
        'repeated-field hosts: ' + ', '.join(listhost.HOSTS),
        'exhaustive within the constants listed in replist_runs (depth 1 with every index/slice spelling, depth 2-3 over reduced, seed-dependent argument menus)',
        'initial lists hold only item types a normally parsed document can hold standalone; comments enter through API calls',
    ]
    if prop == 'C10':
        from checks import repimpl
        ri = repimpl.run(rep, tier)
        rep.cov['repimpl_design_check'] = ri
        rep.cov['states'] += ri['states']
        rep.cov['transitions'] += ri['transitions']
        from checks import slots
        sv = slots.run(rep, tier, {'views'}, plans=[(1, '{"set", "same", "clear"}', 'FALSE'), (2, '{"set", "vset", "clear"}', 'FALSE')])
        rep.cov['derived_views_after_slot_edits'] = {k: v for k, v in sv.items() if k != 'sample'}
        rep.cov['states'] += sv.get('states', 0)
        rep.cov['transitions'] += sv.get('transitions', 0)
        rep.cov['traces_validated_against_impl'] += sv.get('behaviours', 0)
        rb = repimpl.bind(rep, tier)
        rep.cov['repimpl_bound_to_code'] = rb
        rep.cov['states'] += rb['states']
        rep.cov['transitions'] += rb['transitions']
        rep.cov['traces_validated_against_impl'] += rb['behaviours']
    if finish and own:
        return rep.finish()
    return rep


if __name__ == '__main__':
    sys.exit(main(sys.argv[1], sys.argv[2]))

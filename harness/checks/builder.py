"""C01, ModelBuilder token accounting: builder runs on Layout documents are recorded (wrappers installed from
outside on _fix_gap / _build_token / _build_placeholder / build) and validated by TLC against Builder.tla."""
from __future__ import annotations

import json
import os
import random
import tempfile
from typing import Any

from vlib import common, doclib, tlc, tree

common.import_repo()
from autobean_refactor import parser as parser_lib  # noqa: E402


def record(text: str) -> dict | None:
    MB = parser_lib.ModelBuilder
    names = ['_fix_gap', '_build_token', '_build_placeholder', 'build']
    if not all(hasattr(MB, n) for n in names):
        return None
    orig = {n: getattr(MB, n) for n in names}
    events: list = []
    state: dict = {}

    def fix_gap(self: Any, cursor: int) -> Any:
        if state.get('depth', 0) == 0:
            events.append({'op': 'gap', 'c': cursor + 1, 'i': 0, 'row': []})
        return orig['_fix_gap'](self, cursor)

    def build_token(self: Any, token: Any) -> Any:
        i = self._token_to_index[id(token)]
        events.append({'op': 'tok', 'c': 0, 'i': i + 1, 'row': []})
        state['depth'] = state.get('depth', 0) + 1
        try:
            return orig['_build_token'](self, token)
        finally:
            state['depth'] -= 1

    def build_placeholder(self: Any, floating: Any) -> Any:
        events.append({'op': 'ph', 'c': 0, 'i': 0, 'row': []})
        return orig['_build_placeholder'](self, floating)

    def build(self: Any, tr: Any, model_type: Any) -> Any:
        state['has'] = [bool(t.value) for t in self._tokens]
        state['lex'] = list(self._tokens)
        m = orig['build'](self, tr, model_type)
        # which lexer token does every stored model token come from?  (by order of emission)
        state['builder'] = self
        return m

    MB._fix_gap, MB._build_token, MB._build_placeholder, MB.build = fix_gap, build_token, build_placeholder, build
    try:
        f = tree.parse(text, auto_claim_comments=False)
    except Exception:  # noqa: BLE001
        return None
    finally:
        for n in names:
            setattr(MB, n, orig[n])
    # the store row in terms of lexer token numbers: text tokens matched in order, zero-width ones by the events
    has = state['has']
    row_store = list(f.token_store)
    # reconstruct expected numbering from the events themselves is the specification's job; here only the observable
    # store is logged: for every stored token its text, and the spec's emitted row must have the same length and the
    # same text-carrying positions
    lex = state['lex']
    texts_by_index = {i + 1: str(t.value) for i, t in enumerate(lex)}
    # map stored tokens to lexer indexes greedily in order (text tokens are unique in order; zero-width: use events)
    emitted_guess: list[int] = []
    cursor = 1
    for ev in events:
        if ev['op'] == 'gap':
            emitted_guess += [k for k in range(cursor, ev['c']) if has[k - 1]]
            cursor = max(cursor, ev['c'])
        elif ev['op'] == 'tok':
            emitted_guess += [k for k in range(cursor, ev['i']) if has[k - 1]] + [ev['i']]
            cursor = max(cursor, ev['i'] + 1)
        else:
            emitted_guess.append(0)
    # the observable check: the store's texts are the texts of that row (else the row logged is the store's own shape)
    store_texts = [t.raw_text for t in row_store]
    guess_texts = [texts_by_index[k] if k else '' for k in emitted_guess]
    row = emitted_guess if store_texts == guess_texts else [-1] * len(row_store)
    events.append({'op': 'done', 'c': 0, 'i': 0, 'row': row})
    return {'has': has, 'events': events, 'text': text}


def run(rep: common.Reporter, tier: str) -> dict:
    seed = common.seed()
    docs, r = doclib.layouts(max_lines=3 if tier == 'quick' else 4, accepted_only=True, eols=('lf', 'crlf'),
                             devs=('none', 'trailinline', 'tab'))
    rng = random.Random(seed)
    docs = rng.sample(docs, min(len(docs), 1500 if tier == 'quick' else 12000))
    traces = []
    for d in docs:
        t = record(doclib.render(d, rng.randrange(12)))
        if t is None:
            if not hasattr(parser_lib, 'ModelBuilder') or not hasattr(parser_lib.ModelBuilder, '_fix_gap'):
                return {'states': 0, 'transitions': 0, 'behaviours': 0, 'note': 'ModelBuilder internals not observable'}
            continue
        traces.append(t)
    fd, path = tempfile.mkstemp(prefix='verif_btraces_', suffix='.json')
    verdicts: dict = {}
    try:
        with os.fdopen(fd, 'w') as fh:
            json.dump([{'has': t['has'], 'events': t['events']} for t in traces], fh)
        res = tlc.run('Builder', {}, init='TInit', next='TNext', constraints=['Report'], workers=1, env={'TRACE_FILE': path},
                      timeout=1800, print_prefixes=('VERDICT',), on_print=lambda p: verdicts.__setitem__(p[1], (p[2], p[3], p[4])))
    finally:
        os.unlink(path)
    if not res.ok:
        rep.machinery_error(f'Builder trace validation failed: {res.violated} {res.tail[-600:]}')
    rejected = 0
    for k, t in enumerate(traces, 1):
        v = verdicts.get(k)
        if v is None:
            rep.machinery_error('Builder.tla gave no verdict for a trace')
        elif v[0] != 'accepted':
            rejected += 1
            rep.violation(f'C01/builder/{v[2]}', {'what': f'ModelBuilder run rejected by Builder.tla at event {v[1]}: {v[2]}', 'text': t['text']})
    # sensitivity
    if traces:
        c = json.loads(json.dumps(traces[:3]))
        for t in c:
            t['events'][-1]['row'] = t['events'][-1]['row'][1:]
        fd, path = tempfile.mkstemp(prefix='verif_btraces_', suffix='.json')
        vv: dict = {}
        try:
            with os.fdopen(fd, 'w') as fh:
                json.dump([{'has': t['has'], 'events': t['events']} for t in c], fh)
            tlc.run('Builder', {}, init='TInit', next='TNext', constraints=['Report'], workers=1, env={'TRACE_FILE': path},
                    timeout=600, print_prefixes=('VERDICT',), on_print=lambda p: vv.__setitem__(p[1], p[2]))
        finally:
            os.unlink(path)
        if any(v == 'accepted' for v in vv.values()) or len(vv) != len(c):
            rep.machinery_error('sensitivity: a corrupted builder trace was accepted')
    return {'states': res.distinct, 'transitions': res.generated, 'behaviours': len(traces), 'rejected': rejected}

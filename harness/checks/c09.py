"""C09: values written are read back; dependent groups behave like a record of optionals.

CostSpec.tla (abstract record + implementation-shaped concrete forms) -> every assignment
sequence from every initial concrete form is replayed on a real posting cost; TxnStrings.tla
-> payee/narration; generic value properties of every class via the slot machinery."""
from __future__ import annotations

import datetime
import decimal
import json
import multiprocessing as mp
import sys
from typing import Any, Optional

from vlib import common, tlc, tree

common.import_repo()
from autobean_refactor import models  # noqa: E402

NUM = {1: '10', 2: '0'}
CUR = {1: 'AAA', 2: 'BBB'}
DATE = {1: datetime.date(2001, 1, 1), 2: datetime.date(2002, 2, 2)}
LABEL = {1: 'l1', 2: 'l2'}


def comp_text(c: dict) -> str:
    k = c['k']
    if k == 'Num':
        return NUM[c['a']]
    if k == 'Cur':
        return CUR[c['c']]
    if k == 'Amt':
        return f'{NUM[c["a"]]} {CUR[c["c"]]}'
    if k == 'Comp':
        return ' '.join(x for x in [NUM.get(c['a'], ''), '#', NUM.get(c['b'], ''), CUR[c['c']]] if x)
    if k == 'Date':
        return DATE[c['a']].isoformat()
    if k == 'Str':
        return f'"{LABEL[c["a"]]}"'
    return '*'


def cost_text(brace: str, comps: list) -> str:
    body = ', '.join(comp_text(c) for c in comps)
    return '{' + body + '}' if brace == 'U' else '{{' + body + '}}'


def read_real(cost: Any) -> dict:
    def num(x: Optional[decimal.Decimal]) -> int:
        return 0 if x is None else {decimal.Decimal(10): 1, decimal.Decimal(0): 2}.get(x, -1)
    return {'per': num(cost.number_per), 'total': num(cost.number_total),
            'cur': 0 if cost.currency is None else {v: k for k, v in CUR.items()}.get(cost.currency, -1),
            'date': 0 if cost.date is None else {v: k for k, v in DATE.items()}.get(cost.date, -1),
            'label': 0 if cost.label is None else {v: k for k, v in LABEL.items()}.get(cost.label, -1),
            'merge': 1 if cost.merge else 0}


def shape_real(cost: Any) -> tuple[str, list[str]]:
    names = {'NumberExpr': 'Num', 'Currency': 'Cur', 'Amount': 'Amt', 'CompoundAmount': 'Comp', 'Date': 'Date',
             'EscapedString': 'Str', 'Asterisk': 'Star'}
    return ('U' if isinstance(cost.raw_cost, models.UnitCost) else 'T',
            [names.get(type(c).__name__, type(c).__name__) for c in cost.raw_cost.raw_components])


def value_for(fld: str, v: int) -> Any:
    if fld in ('per', 'total'):
        return None if v == 0 else decimal.Decimal(NUM[v])
    if fld == 'cur':
        return None if v == 0 else CUR[v]
    if fld == 'date':
        return None if v == 0 else DATE[v]
    if fld == 'label':
        return None if v == 0 else LABEL[v]
    return bool(v)


ATTR = {'per': 'number_per', 'total': 'number_total', 'cur': 'currency', 'date': 'date', 'label': 'label', 'merge': 'merge'}
HEAD = '2000-01-01 * "p"\n    Assets:Other  -1 USD\n    Assets:A  1 USD '
TAIL = ' @ 2 CAD ; ic\n        pk: 1\n2000-01-02 close Assets:A\n'


def replay(beh: list[dict]) -> tuple[list, int, int]:
    """Returns (findings, drift, steps). finding = (fingerprint, kind, message, step)."""
    init = beh[0]
    text = HEAD + cost_text(init['brace'], init['comps']) + TAIL
    f = tree.parse(text)
    txn = f.raw_directives[0]
    posting = txn.raw_postings[1]
    cost = posting.cost
    findings: list = []
    drift = 0
    got = read_real(cost)
    if got != init['rec']:
        # how the initial form is read is part of the implementation-shaped layer only
        return [], 1, 0
    steps = 0
    for step, ev in enumerate(beh[1:], 1):
        pre_shape = shape_real(cost)
        main = [k for k in pre_shape[1] if k not in ('Date', 'Str', 'Star')]
        fp = f'cost/{pre_shape[0]}:{"+".join(main) or "empty"}/{ev["fld"]}={"None" if ev["v"] == 0 else "value"}'
        before_text = tree.text_of(f)
        before_rec = read_real(cost)
        exc = ''
        try:
            setattr(cost, ATTR[ev['fld']], value_for(ev['fld'], ev['v']))
        except ValueError:
            exc = 'ValueError'
        except Exception as e:  # noqa: BLE001
            exc = type(e).__name__
        steps += 1
        after_text = tree.text_of(f)
        if exc != ev['exc']:
            findings.append((fp, 'exc', f'expected {ev["exc"] or "success"}, got {exc or "success"}; cost text {after_text[len(HEAD):-len(TAIL)]!r}', step))
            break
        got = read_real(cost)
        if not exc:
            # what the model says must be what the printed text says (C06), whatever the record model expects
            try:
                got2 = read_real(tree.parse(after_text).raw_directives[0].raw_postings[1].cost)
                if got2 != got:
                    findings.append((fp, 'reparse', f'model reads {got} but the printed cost {after_text[len(HEAD):-len(TAIL)]!r} re-parses to {got2}', step))
            except Exception as e:  # noqa: BLE001
                findings.append((fp, 'reparse', f'{after_text[len(HEAD):-len(TAIL)]!r} does not parse: {type(e).__name__}', step))
        if exc:
            if after_text != before_text or got != before_rec:
                findings.append((fp, 'refusal', f'rejected assignment changed the cost: {before_text[len(HEAD):-len(TAIL)]!r} -> '
                                                f'{after_text[len(HEAD):-len(TAIL)]!r}', step))
                break
            continue
        if got != ev['rec']:
            findings.append((fp, 'readback', f'after {ev["fld"]}={ev["v"]}: reads {got}, record model says {ev["rec"]}; '
                                             f'cost text {after_text[len(HEAD):-len(TAIL)]!r}', step))
            break
        # frame: everything outside the cost is untouched
        if not (after_text.startswith(HEAD) and after_text.endswith(TAIL)):
            findings.append((fp, 'frame', f'text outside the cost changed: {after_text!r}', step))
            break
        # survives print and re-parse
        try:
            f2 = tree.parse(after_text)
            got2 = read_real(f2.raw_directives[0].raw_postings[1].cost)
            if got2 != ev['rec']:
                findings.append((fp, 'reparse', f're-parsed {after_text[len(HEAD):-len(TAIL)]!r} reads {got2}, expected {ev["rec"]}', step))
                break
        except Exception as e:  # noqa: BLE001
            findings.append((fp, 'reparse', f'{after_text[len(HEAD):-len(TAIL)]!r} does not parse: {type(e).__name__}', step))
            break
        bad = tree.wellformed(f)
        if bad:
            findings.append((fp, 'tree', '; '.join(bad[:2]), step))
            break
        sh = shape_real(cost)
        if sh[0] != ev['brace'] or sh[1] != [c['k'] for c in ev['comps']]:
            drift += 1
            break     # concrete form diverged from the implementation-shaped layer: stop (not a verdict)
    if not findings:
        # from the form reached: the raw-level setters refuse a node that lives elsewhere in the document, before
        # the braces or the components have been touched (C19)
        pre_shape = shape_real(cost)
        main = [k for k in pre_shape[1] if k not in ('Date', 'Str', 'Star')]
        for attr, donor in (('raw_number_per', txn.raw_postings[0].raw_number), ('raw_number_total', txn.raw_postings[0].raw_number),
                            ('raw_currency', txn.raw_postings[0].raw_currency)):
            fp = f'cost/{pre_shape[0]}:{"+".join(main) or "empty"}/{attr}=attached'
            before_text = tree.text_of(f)
            try:
                setattr(cost, attr, donor)
                findings.append((fp, 'refusal', f'{attr} = <node of another posting> was accepted: {tree.text_of(f)[len(HEAD):-len(TAIL)]!r}', len(beh)))
                break
            except ValueError:
                pass
            except Exception as e:  # noqa: BLE001
                findings.append((fp, 'refusal', f'{attr} = <attached> raised {type(e).__name__}: {e}', len(beh)))
                break
            if tree.text_of(f) != before_text:
                findings.append((fp, 'refusal', f'refused {attr} = <attached> changed the document: {before_text[len(HEAD):-len(TAIL)]!r} -> '
                                                f'{tree.text_of(f)[len(HEAD):-len(TAIL)]!r}', len(beh)))
                break
    return findings, drift, steps


def _chunk(items: list) -> tuple[int, int, list]:
    out = []
    drift = steps = 0
    from checks import store_replay
    for bk, s in enumerate(items):
        beh = json.loads(s)
        store_replay.set_load_factor(store_replay.rot(bk + len(s)))
        fnd, d, st = replay(beh)
        drift += d
        steps += st
        for fp, kind, msg, step in fnd:
            out.append((fp, kind, msg, step, beh))
    store_replay.set_load_factor(1000)
    return drift, steps, out


MAINS = '{"none","num","cur","amt","comp00","comp10","comp01","comp11","numcur","curnum"}'


def cost_part(rep: common.Reporter, tier: str, kinds: Optional[set] = None) -> dict:
    depth = 2 if tier == 'quick' else 3
    extras = '{<<>>, <<"date">>, <<"label", "star">>}' if tier == 'quick' else \
        '{<<>>, <<"date">>, <<"label">>, <<"star">>, <<"date", "label">>, <<"star", "date">>, <<"date", "label", "star">>}'
    c = dict(NumVals='1..2', CurVals='1..2', Depth=str(depth), Mains=MAINS, Extras=extras)
    behs: list[str] = []
    r = tlc.run('CostSpec', c, invariants=['TypeOK', 'AbsLegal'], constraints=['Emit'],
                on_print=lambda p: behs.append(p[1]), timeout=3000)
    if not r.ok:
        rep.machinery_error(f'CostSpec TLC run failed: {r.violated} {r.tail[-600:]}')
        return {}
    design_mis: dict[str, int] = {}
    for s in behs:
        for ev in json.loads(s)[1:]:
            if ev['mis']:
                main = [k for k in ev['pre'][1] if k not in ('Date', 'Str', 'Star')]
                k = f'cost/{ev["pre"][0]}:{"+".join(main) or "empty"}/{ev["fld"]}={"None" if ev["v"] == 0 else "value"}'
                design_mis[k] = design_mis.get(k, 0) + 1
    drift = steps = 0
    with mp.Pool(16) as pool:
        for d, st, out in common.gmap(pool, rep, _chunk, list(common.chunked(behs, 300))):
            drift += d
            steps += st
            for fp, kind, msg, step, beh in out:
                if kinds is None or kind in kinds or (kind == 'exc' and 'refusal' in kinds and 'expected ValueError' in msg):
                    rep.violation(fp + ('' if kinds is None else '/' + kind), {'kind': kind, 'what': msg, 'step': step, 'behaviour': beh})
    return {'states': r.distinct, 'transitions': r.generated, 'behaviours': len(behs), 'steps': steps, 'drift': drift,
            'design_deviations_of_transcribed_algorithm': design_mis,
            'sample': json.loads(behs[len(behs) // 2]) if behs else None}


def main(prop: str, tier: str) -> int:
    rep = common.Reporter('C09', tier)
    cp = cost_part(rep, tier)
    parts = {'cost': {k: v for k, v in cp.items() if k != 'sample'}}
    states = cp.get('states', 0)
    transitions = cp.get('transitions', 0)
    replayed = cp.get('behaviours', 0)
    samples = [cp['sample']] if cp.get('sample') else []
    try:
        from checks import txnstrings
        tp = txnstrings.run(rep, tier)
        parts['txn_strings'] = {k: v for k, v in tp.items() if k != 'sample'}
        states += tp.get('states', 0)
        transitions += tp.get('transitions', 0)
        replayed += tp.get('behaviours', 0)
        if tp.get('sample'):
            samples.append(tp['sample'])
    except ImportError:
        pass
    try:
        from checks import slots
        sp = slots.run(rep, tier, {'readback'})
        parts['value_properties'] = {k: v for k, v in sp.items() if k != 'sample'}
        states += sp.get('states', 0)
        transitions += sp.get('transitions', 0)
        replayed += sp.get('behaviours', 0)
    except ImportError:
        pass
    from checks import metavalue
    mv = metavalue.run(rep, tier, {'readback', 'reparse'})
    parts['meta_values'] = {k: v for k, v in mv.items() if k != 'sample'}
    states += mv.get('states', 0)
    transitions += mv.get('transitions', 0)
    replayed += mv.get('behaviours', 0)
    rep.cov.update({'states': states or 1, 'transitions': transitions or 1, 'traces_validated_against_impl': replayed,
                    'parts': parts, 'samples': samples, 'exhaustive': True})
    rep.assumptions += ['two abstract numbers / currencies / dates / labels stand for all values',
                        'initial concrete forms: every main component shape (incl. the split forms {N, C} / {C, N}) x both brace kinds x date/label/merge layouts']
    return rep.finish()


if __name__ == '__main__':
    sys.exit(main('C09', sys.argv[1] if len(sys.argv) > 1 else 'quick'))

"""C09, transaction payee / narration: TxnStrings.tla behaviours replayed on real transactions."""
from __future__ import annotations

import json
from typing import Any, Optional

from vlib import common, tlc, tree

VAL = {0: None, 1: '', 2: 'x', 3: 'with "q"'}
HEADS = ['2000-01-01 *', '2000-01-01 txn', '2000-01-01 !']
TAIL = ' #tag ^link ; ic\n    kk: 1\n    Assets:A  1 USD\n    Assets:B\n2000-01-02 close Assets:A\n'


def esc(s: str) -> str:
    return '"' + s.replace('\\', '\\\\').replace('"', '\\"') + '"'


def replay(beh: list[dict], variant: int) -> list[tuple[str, str]]:
    init = beh[0]
    head = HEADS[variant % len(HEADS)]
    strings = [esc(VAL[v]) for v in (init['payee'], init['narration']) if v != 0]
    text = head + ''.join(' ' + s for s in strings) + TAIL
    f = tree.parse(text)
    txn = f.raw_directives[0]
    out = []
    if (txn.payee, txn.narration) != (VAL[init['payee']], VAL[init['narration']]):
        return [('C09/txn-strings/parse', f'{text!r} reads payee={txn.payee!r} narration={txn.narration!r}')]
    for ev in beh[1:]:
        others0 = (list(txn.tags), list(txn.links), txn.inline_comment, txn.date, len(txn.postings), dict(txn.meta.items()))
        if ev.get('exc'):
            # a refused raw-level assignment: a string node that lives in another transaction
            donor_doc = tree.parse('2000-01-03 * "dp" "dn"\n    Assets:D\n')
            donor = donor_doc.raw_directives[0].raw_payee
            before_text = tree.text_of(f)
            before_ids = [id(t) for t in f.token_store]
            try:
                setattr(txn, ev['op'], donor)
                out.append((f'C19/txn-strings/{ev["op"]}/not-refused', f'{ev["op"]} = <a string of another transaction> was accepted'))
                break
            except ValueError:
                pass
            except Exception as e:  # noqa: BLE001
                out.append((f'C19/txn-strings/{ev["op"]}/exception', f'{ev["op"]} = <attached> raised {type(e).__name__}: {e}'))
                break
            if tree.text_of(f) != before_text or [id(t) for t in f.token_store] != before_ids \
                    or (txn.payee, txn.narration) != (VAL[ev['payee']], VAL[ev['narration']]) \
                    or tree.text_of(donor_doc) != '2000-01-03 * "dp" "dn"\n    Assets:D\n':
                out.append((f'C19/txn-strings/{ev["op"]}/refusal', f'refused {ev["op"]} = <attached> changed the document: '
                                                                   f'{before_text.splitlines()[0]!r} -> {tree.text_of(f).splitlines()[0]!r}'))
                break
            continue
        try:
            setattr(txn, ev['op'], VAL[ev['v']])
        except Exception as e:  # noqa: BLE001
            out.append((f'C09/txn-strings/{ev["op"]}', f'{ev["op"]} = {VAL[ev["v"]]!r} raised {type(e).__name__}: {e}'))
            break
        want = (VAL[ev['payee']], VAL[ev['narration']])
        got = (txn.payee, txn.narration)
        now = tree.text_of(f)
        if got != want:
            out.append((f'C09/txn-strings/{ev["op"]}', f'after {ev["op"]} = {VAL[ev["v"]]!r}: reads {got}, record model says {want}; text {now.splitlines()[0]!r}'))
            break
        if (list(txn.tags), list(txn.links), txn.inline_comment, txn.date, len(txn.postings), dict(txn.meta.items())) != others0:
            out.append((f'C09/txn-strings/{ev["op"]}', f'other properties changed; text {now!r}'))
        if not now.endswith(TAIL):
            out.append((f'C09/txn-strings/{ev["op"]}', f'text outside the strings changed: {now!r}'))
        try:
            t2 = tree.parse(now).raw_directives[0]
            if (t2.payee, t2.narration) != want:
                out.append((f'C09/txn-strings/{ev["op"]}', f're-parsed {now.splitlines()[0]!r} reads {(t2.payee, t2.narration)}, expected {want}'))
        except Exception as e:  # noqa: BLE001
            out.append((f'C09/txn-strings/{ev["op"]}', f'{now!r} does not parse: {type(e).__name__}'))
        bad = tree.wellformed(f)
        if bad:
            out.append((f'C09/txn-strings/{ev["op"]}', 'tree: ' + '; '.join(bad[:2])))
        if out:
            break
    return out


def run(rep: common.Reporter, tier: str, attached: bool = False) -> dict:
    """attached=False: the C09 part (value-level histories); attached=True: the C19 part (histories that also contain
    refused raw-level assignments; only the refusals are judged then)."""
    behs: list[str] = []
    r = tlc.run('TxnStrings', dict(Vals='0..3' if not attached else '0..2', Depth='3' if tier == 'quick' or attached else '4',
                                   WithAttached='TRUE' if attached else 'FALSE'), invariants=['PayeeImpliesNarration'],
                constraints=['Emit'], on_print=lambda p: behs.append(p[1]), timeout=1200)
    if not r.ok:
        rep.machinery_error(f'TxnStrings TLC run failed: {r.violated} {r.tail[-500:]}')
        return {}
    for n, s in enumerate(behs):
        beh = json.loads(s)
        if attached and not any(ev.get('exc') for ev in beh[1:]):
            continue
        for fp, msg in replay(beh, n):
            if attached != fp.startswith('C19/'):
                continue
            rep.violation(fp, {'what': msg, 'behaviour': beh})
    return {'states': r.distinct, 'transitions': r.generated, 'behaviours': len(behs),
            'sample': json.loads(behs[len(behs) // 2]) if behs else None}


def refusal_part(rep: common.Reporter, tier: str) -> dict:
    return run(rep, tier, attached=True)

"""C09, transaction payee / narration: TxnStrings.tla behaviours replayed on real transactions."""
from __future__ import annotations

import json
from typing import Any, Optional

from vlib import common, tlc, tree

VAL = {0: None, 1: '', 2: 'x', 3: 'with "q"'}
HEADS = ['2000-01-01 *', '2000-01-01 txn', '2000-01-01 !']
TAIL = ' #tag ^link ; ic\n    kk: 1\n    Assets:A  1 USD\n    Assets:B\n2000-01-02 close Assets:A\n'


def esc(s: str) -> str:
    return '"' + s.replace('\\', '\\\\').replace('"', '\\"') + '"'


def replay(beh: list[dict], variant: int) -> list[tuple[str, str]]:
    init = beh[0]
    head = HEADS[variant % len(HEADS)]
    strings = [esc(VAL[v]) for v in (init['payee'], init['narration']) if v != 0]
    text = head + ''.join(' ' + s for s in strings) + TAIL
    f = tree.parse(text)
    txn = f.raw_directives[0]
    out = []
    if (txn.payee, txn.narration) != (VAL[init['payee']], VAL[init['narration']]):
        return [('C09/txn-strings/parse', f'{text!r} reads payee={txn.payee!r} narration={txn.narration!r}')]
    for ev in beh[1:]:
        others0 = (list(txn.tags), list(txn.links), txn.inline_comment, txn.date, len(txn.postings), dict(txn.meta.items()))
        try:
            setattr(txn, ev['op'], VAL[ev['v']])
        except Exception as e:  # noqa: BLE001
            out.append((f'C09/txn-strings/{ev["op"]}', f'{ev["op"]} = {VAL[ev["v"]]!r} raised {type(e).__name__}: {e}'))
            break
        want = (VAL[ev['payee']], VAL[ev['narration']])
        got = (txn.payee, txn.narration)
        now = tree.text_of(f)
        if got != want:
            out.append((f'C09/txn-strings/{ev["op"]}', f'after {ev["op"]} = {VAL[ev["v"]]!r}: reads {got}, record model says {want}; text {now.splitlines()[0]!r}'))
            break
        if (list(txn.tags), list(txn.links), txn.inline_comment, txn.date, len(txn.postings), dict(txn.meta.items())) != others0:
            out.append((f'C09/txn-strings/{ev["op"]}', f'other properties changed; text {now!r}'))
        if not now.endswith(TAIL):
            out.append((f'C09/txn-strings/{ev["op"]}', f'text outside the strings changed: {now!r}'))
        try:
            t2 = tree.parse(now).raw_directives[0]
            if (t2.payee, t2.narration) != want:
                out.append((f'C09/txn-strings/{ev["op"]}', f're-parsed {now.splitlines()[0]!r} reads {(t2.payee, t2.narration)}, expected {want}'))
        except Exception as e:  # noqa: BLE001
            out.append((f'C09/txn-strings/{ev["op"]}', f'{now!r} does not parse: {type(e).__name__}'))
        bad = tree.wellformed(f)
        if bad:
            out.append((f'C09/txn-strings/{ev["op"]}', 'tree: ' + '; '.join(bad[:2])))
        if out:
            break
    return out


def run(rep: common.Reporter, tier: str) -> dict:
    behs: list[str] = []
    r = tlc.run('TxnStrings', dict(Vals='0..3', Depth='3' if tier == 'quick' else '4'), invariants=['PayeeImpliesNarration'],
                constraints=['Emit'], on_print=lambda p: behs.append(p[1]), timeout=1200)
    if not r.ok:
        rep.machinery_error(f'TxnStrings TLC run failed: {r.violated} {r.tail[-500:]}')
        return {}
    for n, s in enumerate(behs):
        beh = json.loads(s)
        for fp, msg in replay(beh, n):
            rep.violation(fp, {'what': msg, 'behaviour': beh})
    return {'states': r.distinct, 'transitions': r.generated, 'behaviours': len(behs),
            'sample': json.loads(behs[len(behs) // 2]) if behs else None}

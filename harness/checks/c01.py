"""C01: parse then print reproduces the input; every sub-model prints its slice.

Input space: every Layout.tla state (all sequences of structural line classes up to N lines,
single-line deviations, LF/CRLF, with/without final line end), rendered with rotating concrete
directives.  Oracle: identity on text.  PostLex.tla behaviours are replayed into the real
PostLex class (spec -> code) for the mark-insertion state machine."""
from __future__ import annotations

import json
import multiprocessing as mp
import sys
from typing import Any

from vlib import common, doclib, tree, tlc

common.import_repo()
from autobean_refactor import models  # noqa: E402
from autobean_refactor.models import base  # noqa: E402


def check_text(text: str) -> tuple[str, list[tuple[str, str]], int]:
    """Returns (status, findings, number of sub-model checks). status: 'rejected' | 'accepted'."""
    findings: list[tuple[str, str]] = []
    n_sub = 0
    for ac in (True, False):
        try:
            f = tree.parse(text, auto_claim_comments=ac)
        except Exception:  # noqa: BLE001
            return 'rejected', [], 0
        out = tree.text_of(f)
        if out != text:
            findings.append(('print', f'auto_claim={ac}: printed {out!r}'))
            continue
        store = f.token_store
        toks = list(store)
        if ''.join(t.raw_text for t in toks) != text:
            findings.append(('store', f'auto_claim={ac}: concatenation of store tokens differs from the input'))
            continue
        prefix = {}
        pos = 0
        for t in toks:
            prefix[id(t)] = pos
            pos += len(t.raw_text)
        for path, m in tree.walk(f):
            try:
                a = prefix[id(m.first_token)]
                b = prefix[id(m.last_token)] + len(m.last_token.raw_text)
            except KeyError:
                findings.append(('slice', f'auto_claim={ac}: {path} first/last token not in the store'))
                continue
            sl = text[a:b]
            got = tree.text_of(m)
            n_sub += 1
            if got != sl:
                findings.append(('slice', f'auto_claim={ac}: {path} ({type(m).__name__}) prints {got!r}, spans {sl!r}'))
                continue
            if isinstance(m, base.RawTreeModel) and type(m).__name__ in _TARGETS and m is not f:
                for ac2 in (True, False):
                    try:
                        m2 = tree.parse(sl, type(m), auto_claim_comments=ac2)
                    except Exception:  # noqa: BLE001
                        continue
                    if tree.text_of(m2) != sl:
                        kind = 'target'
                        toks2 = list(m2.token_store)
                        try:
                            i0 = m2.token_store.get_index(m2.first_token)
                            i1 = m2.token_store.get_index(m2.last_token)
                            outer = toks2[:i0] + toks2[i1 + 1:]
                            if tree.store_text(m2.token_store) == sl and all(
                                    isinstance(t, (models.BlockComment, models.Newline, models.Whitespace, models.Indent))
                                    or not t.raw_text for t in outer) and any(
                                    isinstance(t, models.BlockComment) for t in outer):
                                # the store holds the whole input, but comments outside the model's own span
                                # (not claimed) are not printed with the model
                                kind = 'target-outer-comment-not-in-model'
                        except Exception:  # noqa: BLE001
                            pass
                        findings.append((kind, f'parse({sl!r}, {type(m).__name__}, auto_claim={ac2}) prints '
                                               f'{tree.text_of(m2)!r}'))
                    elif tree.store_text(m2.token_store) != sl:
                        findings.append(('target', f'parse({sl!r}, {type(m).__name__}): store concat differs'))
                # the same fragment with blanks / a line end at its very edges: where the parser accepts it, the store
                # still spells the whole input and the model prints a slice of it
                if ac and not isinstance(m, models.File):
                    for pre, suf in ((' ', ''), ('', ' '), ('', '\n'), ('\t', ' \r\n')):
                        v = pre + sl + suf
                        try:
                            m3 = tree.parse(v, type(m))
                        except Exception:  # noqa: BLE001
                            continue
                        n_sub += 1
                        if tree.store_text(m3.token_store) != v:
                            findings.append(('target-edge', f'parse({v!r}, {type(m).__name__}): the store spells '
                                                            f'{tree.store_text(m3.token_store)!r}'))
                        elif tree.text_of(m3) not in v:
                            findings.append(('target-edge', f'parse({v!r}, {type(m).__name__}) prints {tree.text_of(m3)!r}'))
    return 'accepted', findings, n_sub


def check_text_big(text: str) -> tuple[str, list[tuple[str, str]], int]:
    """Round trip of a large text (sub-model slices sampled at the directive level only)."""
    findings: list[tuple[str, str]] = []
    toks: list = []
    for ac in (True, False):
        try:
            f = tree.parse(text, auto_claim_comments=ac)
        except Exception:  # noqa: BLE001
            return 'rejected', [], 0
        out = tree.text_of(f)
        if out != text:
            k = next((i for i, (a, b) in enumerate(zip(out, text)) if a != b), min(len(out), len(text)))
            findings.append(('print', f'auto_claim={ac}: printed text differs from the input at offset {k} '
                                      f'(lengths {len(out)} / {len(text)})'))
            continue
        if tree.store_text(f.token_store) != text:
            findings.append(('store', f'auto_claim={ac}: concatenation of store tokens differs from the input'))
            continue
        toks = list(f.token_store)
        prefix = {}
        pos = 0
        for t in toks:
            prefix[id(t)] = pos
            pos += len(t.raw_text)
        ds = list(f.raw_directives_with_comments)
        for m in ds[::max(1, len(ds) // 200)]:
            a = prefix[id(m.first_token)]
            b = prefix[id(m.last_token)] + len(m.last_token.raw_text)
            if tree.text_of(m) != text[a:b]:
                findings.append(('slice', f'auto_claim={ac}: a directive of a large file does not print its slice'))
                break
    return 'accepted', findings, len(toks)


_TARGETS = {c.__name__ for c in models.TREE_MODELS.values()}


def _chunk(arg: tuple) -> tuple[int, int, int, int, list]:
    flavors, docs = arg
    acc = rej = subs = drift = 0
    out = []
    for d in docs:
        for fl in flavors:
            text = doclib.render(d, fl)
            st, findings, n_sub = check_text(text)
            subs += n_sub
            if st == 'accepted':
                acc += 1
            else:
                rej += 1
            if (st == 'accepted') != d['accept']:
                drift += 1
            for kind, msg in findings:
                out.append((kind, msg, text, d))
    return acc, rej, subs, drift, out


# characters outside the representatives the layouts are rendered with: one per class that text-processing code is
# known to treat specially (stripped, normalised, taken for a line end, taken for a blank, re-encoded, escaped)
ZOO = {
    'bom': '\ufeff', 'nbsp': '\xa0', 'zwsp': '\u200b', 'zwj': '\u200d', 'lrm': '\u200e', 'rlo': '\u202e', 'shy': '\xad',
    'nel': '\x85', 'ls': '\u2028', 'ps': '\u2029', 'vt': '\x0b', 'ff': '\x0c', 'fs': '\x1c', 'gs': '\x1d', 'rs': '\x1e',
    'us': '\x1f', 'nul': '\x00', 'del': '\x7f', 'esc': '\x1b', 'bel': '\x07', 'bs': '\x08', 'cr': '\r', 'tab': '\t',
    'emoji': '\U0001f600', 'cjk': '\u6f22', 'combining': 'e\u0301', 'dotted-I': '\u0130', 'eszett': '\xdf',
    'fullwidth-digit': '\uff11', 'arabic-digit': '\u0663', 'ideographic-space': '\u3000', 'en-quad': '\u2000',
    'backslash': '\\', 'quote': '"', 'semicolon': ';', 'star': '*', 'hash': '#', 'escaped-quote': '\\"', 'escaped-n': '\\n',
    'private-use': '\ue000', 'noncharacter': '\uffff', 'lone-surrogate': '\ud800', 'mongolian-vs': '\u180e',
}

ZOO_DOCS = [
    '; block comment\n2000-01-01 open Assets:Abc USD ; inline\n    key: "meta value"\n* heading line\n',
    '2000-01-01 * "payee" "narration" #tag ^link\n    ; indented comment\n    Assets:Abc  1.50 USD {2 EUR, 2000-01-01, "label"} @ 3 CAD ; pc\n'
    '        pk: TRUE\n    Assets:Xyz\n',
    'option "title" "value"\ninclude "file.bean"\nplugin "mod" "config"\npushtag #tg\npoptag #tg\n2000-01-01 custom "type" "s" 1 Assets:Abc\n',
    '2000-01-01 note Assets:Abc "text"\n2000-01-01 event "type" "desc"\n2000-01-01 query "name" "select"\n'
    '2000-01-01 document Assets:Abc "/path"\n\n; tail\n',
]


def _zoo_chunk(arg: tuple) -> tuple[int, int, list]:
    items = arg
    acc = rej = 0
    out = []
    for text, (a, b), ttype, cname in items:
        ch = ZOO[cname]
        for where, k in (('start', a), ('inside', a + max(1, (b - a) // 2) if b - a > 1 else None), ('end', b)):
            if k is None:
                continue
            t2 = text[:k] + ch + text[k:]
            st, findings, _ = check_text(t2)
            if st != 'accepted':
                rej += 1
                continue
            acc += 1
            for kind, msg in findings:
                out.append((f'C01/chars/{ttype}/{cname}/{kind}' if not kind.startswith('target-outer') else f'C01/{kind}',
                            f'{cname} ({ch!r}) at the {where} of a {ttype} token: {msg}', t2))
    return acc, rej, out


def charzoo_part(rep: common.Reporter, tier: str, sample_texts: list[str]) -> dict:
    """Every token of the base documents x every character class x (start, inside, end of the token): texts the
    parser accepts must be printed back unchanged, as a whole and model by model."""
    import random
    rng = random.Random(common.seed() + 11)
    texts = list(ZOO_DOCS) + sample_texts
    items = []
    for text in texts:
        try:
            f = tree.parse(text)
        except Exception:  # noqa: BLE001
            continue
        pos = 0
        for t in f.token_store:
            n = len(t.raw_text)
            if n:
                for cname in ZOO:
                    items.append((text, (pos, pos + n), type(t).__name__, cname))
            pos += n
    if tier == 'quick' and len(items) > 9000:
        head = [it for it in items if it[0] in ZOO_DOCS[:2]]
        rest = [it for it in items if it[0] not in ZOO_DOCS[:2]]
        items = head + rng.sample(rest, max(0, 9000 - len(head)))
    acc = rej = 0
    with mp.Pool(16) as pool:
        for a, r, out in common.gmap(pool, rep, _zoo_chunk, list(common.chunked(items, 150))):
            acc += a
            rej += r
            for fp, msg, t2 in out:
                rep.violation(fp, {'what': msg, 'text': t2})
    return {'base_documents': len(texts), 'character_classes': len(ZOO), 'token_x_class_cases': len(items),
            'accepted_texts': acc, 'rejected_texts_skipped': rej}


def main(prop: str, tier: str) -> int:
    rep = common.Reporter('C01', tier)
    seed = common.seed()
    base_fl = seed % 12
    if tier == 'quick':
        runs = [
            dict(name='N4-plain', kw=dict(max_lines=4), flavors=[base_fl]),
            dict(name='N3-devs', kw=dict(max_lines=3, devs=('none', 'tab', 'sp1', 'sp8', 'trail', 'inline', 'trailinline'),
                                         eols=('lf', 'crlf', 'crcrlf'), finals=(True, False)), flavors=[base_fl + 1, base_fl + 5]),
        ]
    else:
        runs = [
            dict(name='N5-plain', kw=dict(max_lines=5), flavors=[base_fl, base_fl + 7]),
            dict(name='N4-devs', kw=dict(max_lines=4, devs=('none', 'tab', 'sp1', 'sp8', 'trail', 'inline', 'trailinline'),
                                         eols=('lf', 'crlf', 'crcrlf'), finals=(True, False)), flavors=[base_fl + 1]),
            dict(name='N3-all-flavors', kw=dict(max_lines=3, eols=('lf', 'crlf'), finals=(True, False)),
                 flavors=list(range(12))),
        ]
    states = transitions = acc = rej = subs = drift = 0
    info = []
    samples: list = []
    with mp.Pool(16) as pool:
        for run in runs:
            docs, r = doclib.layouts(**run['kw'])
            if not r.ok:
                rep.machinery_error(f'Layout TLC run {run["name"]} failed: {r.violated} {r.tail[-500:]}')
                continue
            states += r.distinct
            transitions += r.generated
            info.append({'run': run['name'], 'documents': len(docs), 'flavors': run['flavors'],
                         'tlc_states': r.distinct, 'wall_s': round(r.wall_s, 1)})
            if docs:
                samples.append({'layout': docs[len(docs) // 3], 'text': doclib.render(docs[len(docs) // 3], run['flavors'][0])})
            jobs = [(run['flavors'], ch) for ch in common.chunked(docs, 200)]
            for a, rj, sb, dr, out in common.gmap(pool, rep, _chunk, jobs):
                acc += a
                rej += rj
                subs += sb
                drift += dr
                for kind, msg, text, d in out:
                    rep.violation(f'C01/{kind}' if kind.startswith('target-outer') else
                                  f'C01/{kind}/{"-".join(d["lines"][:6])}/{d["dev"]}/{d["eol"]}',
                                  {'what': msg, 'text': text, 'layout': d})
    # large documents: concatenations of accepted layouts, sized around the token store's block
    # boundaries (1000 tokens) and well beyond (tens of thousands of tokens)
    big = []
    pool_docs = [d for d in docs if d['accept'] and d['lines'] and d['final'] and d['lines'][-1] in ('blank', 'dir', 'opt', 'head', 'com')] if docs else []
    if pool_docs:
        import random
        rng = random.Random(seed + 3)
        for target in ([900, 2100, 40000] if tier == 'quick' else [900, 1100, 2100, 4500, 20000, 70000, 150000]):
            parts = []
            ntok = 0
            while ntok < target:
                d = rng.choice(pool_docs)
                t = doclib.render(d, rng.randrange(12))
                parts.append(t)
                ntok += max(1, len(t) // 3)
            text = ''.join(parts)
            st, findings, n_sub = check_text_big(text)
            big.append({'tokens': n_sub, 'chars': len(text), 'status': st})
            if st == 'accepted':
                acc += 1
            for kind, msg in findings:
                rep.violation(f'C01/big/{kind}', {'what': msg, 'text_head': text[:300], 'chars': len(text)})
    rngz = __import__('random').Random(seed + 5)
    zoo_samples = [doclib.render(d, rngz.randrange(12)) for d in rngz.sample(pool_docs, min(len(pool_docs), 6 if tier == 'quick' else 60))] \
        if pool_docs else []
    zoo = charzoo_part(rep, tier, zoo_samples)
    acc += zoo['accepted_texts']
    pl = postlex_replay(tier, rep)
    try:
        from checks import builder
        bl = builder.run(rep, tier)
    except ImportError:
        bl = {}
    rep.cov.update({
        'states': states + pl.get('states', 0) + bl.get('states', 0), 'transitions': transitions + pl.get('transitions', 0) + bl.get('transitions', 0),
        'model_builder_traces': bl,
        'traces_validated_against_impl': acc + pl.get('replayed', 0) + bl.get('behaviours', 0),
        'accepted_texts': acc, 'rejected_texts_skipped': rej, 'sub_model_slices_checked': subs,
        'character_classes': zoo, 'layout_acceptance_drift': drift, 'runs': info, 'large_documents': big, 'postlex': pl,
        'samples': samples, 'exhaustive': True,
        'rule': 'every Layout.tla state up to the listed number of lines is rendered and parsed in both attribution modes',
    })
    rep.assumptions += [
        'characters inside lexemes are representatives (a few concrete directives per structural class) plus one character per listed class at the start, inside and end of every token of a few base documents; the regex lexer is exercised, not modelled',
        'texts the parser rejects are skipped (the property is conditional on acceptance)',
    ]
    return rep.finish()


def postlex_replay(tier: str, rep: common.Reporter) -> dict:
    try:
        from checks import postlex
    except ImportError:
        return {}
    return postlex.run(tier, rep)


if __name__ == '__main__':
    sys.exit(main('C01', sys.argv[1] if len(sys.argv) > 1 else 'quick'))

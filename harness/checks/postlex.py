"""PostLex.tla behaviours replayed into the real parser.PostLex class (spec -> code)."""
from __future__ import annotations

import json
from typing import Any

from vlib import common, tlc

common.import_repo()
import lark  # noqa: E402
from autobean_refactor import parser as parser_lib  # noqa: E402

NL = ['\n', '\r\n', '\n\n', '\r\r\n\n']
IND = ['    ', '\t', '  ']
COM = ['; c', ';', '; a\n; b', ';x\r\n    ; y']


def concrete(inp: list, variant: int) -> list[tuple[str, str, dict]]:
    toks = []
    for k, x in enumerate(inp):
        if not (x['nl'] or x['ind'] or x['com']):
            toks.append(('ACCOUNT', 'Assets:A', {}))
            continue
        nl = NL[(variant + k) % len(NL)] if x['nl'] else ''
        ind = IND[(variant + k) % len(IND)] if x['ind'] else ''
        com = COM[(variant + k) % len(COM)] if x['com'] else ''
        toks.append(('_NEWLINE_INDENT_COMMENT', nl + ind + com, {'nl': nl, 'ind': ind, 'com': com, 'ind+com': ind + com}))
    return toks


def expected(inp: list, out: list, toks: list) -> list[tuple[str, str]]:
    exp = []
    k = -1
    pieces_left: list = []
    # walk the output, attributing text pieces to input lexemes in order
    it = iter(toks)
    cur: Any = None
    remaining: list[str] = []
    for typ, piece in out:
        if piece == '':
            exp.append((typ, ''))
            continue
        while not remaining:
            cur = next(it)
            if cur[0] == 'ACCOUNT':
                remaining = ['all']
            else:
                remaining = [p for p in ('nl', 'ind+com' if cur[2]['com'] and cur[2]['ind'] else ('com' if cur[2]['com'] else 'ind'))
                             if cur[2].get(p)]
        p = remaining.pop(0)
        if cur[0] == 'ACCOUNT':
            exp.append(('ACCOUNT', cur[1]))
        else:
            exp.append((typ, cur[2][piece]))
    return exp


def run(tier: str, rep: common.Reporter) -> dict:
    maxlen = 4 if tier == 'quick' else 5
    behs: list[str] = []
    r = tlc.run('PostLex', {'MaxLen': str(maxlen)},
                invariants=['MarksAlternate', 'MarksClosed', 'TextPreserved', 'IndentedFlagOK'],
                constraints=['Emit'], on_print=lambda p: behs.append(p[1]), timeout=1200)
    if not r.ok:
        rep.machinery_error(f'PostLex TLC run failed: {r.violated} {r.tail[-600:]}')
        return {}
    replayed = 0
    pl = parser_lib.PostLex()
    for n, s in enumerate(behs):
        b = json.loads(s)
        for variant in (0, 1) if tier == 'quick' else (0, 1, 2, 3):
            toks = concrete(b['input'], variant + n)
            stream = [lark.Token(t, v) for t, v, _ in toks]
            try:
                got = [(t.type, str(t.value)) for t in pl.process(iter(stream))]
            except Exception as e:  # noqa: BLE001
                rep.violation('C01/postlex/crash', {'what': f'{type(e).__name__}: {e}', 'input': [t[:2] for t in toks]})
                continue
            exp = expected(b['input'], b['out'], toks)
            exp = [(('ACCOUNT' if t == 'OTHER' else t), v) for t, v in exp]
            replayed += 1
            if got != exp:
                # text preservation is the property; token kinds are the specification's (drift otherwise)
                if ''.join(v for _, v in got) != ''.join(v for _, v, _ in toks):
                    rep.violation('C01/postlex/text', {'what': 'post-lexer output does not carry the input text',
                                                       'input': [t[:2] for t in toks], 'got': got, 'expected': exp})
                else:
                    rep.violation('C01/postlex/marks', {'what': 'post-lexer emits other tokens than PostLex.tla',
                                                        'input': [t[:2] for t in toks], 'got': got, 'expected': exp})
    return {'states': r.distinct, 'transitions': r.generated, 'behaviours': len(behs), 'replayed': replayed}

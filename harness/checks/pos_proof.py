"""Unbounded part of C08: the Position monoid laws (PosProofs.tla) discharged by tlapm."""
from __future__ import annotations

import os
import re
import shutil
import subprocess
import tempfile

from vlib import tlc


def run(timeout: float = 300) -> dict:
    exe = shutil.which('tlapm')
    if not exe:
        return {'available': False}
    tmp = tempfile.mkdtemp(prefix='verif_tlapm_')
    try:
        shutil.copy(os.path.join(tlc.SPEC_DIR, 'proofs', 'PosProofs.tla'), tmp)
        try:
            p = subprocess.run([exe, '--cleanfp', 'PosProofs.tla'], cwd=tmp, capture_output=True, text=True, timeout=timeout)
        except subprocess.TimeoutExpired:
            return {'available': True, 'timed_out': True}
        out = p.stdout + p.stderr
        m = re.search(r'All (\d+) obligations? proved', out)
        return {'available': True, 'obligations': int(m.group(1)) if m else 0, 'all_proved': bool(m),
                'checker_cmd': 'tlapm --cleanfp PosProofs.tla', 'tail': out[-300:] if not m else ''}
    finally:
        shutil.rmtree(tmp, ignore_errors=True)

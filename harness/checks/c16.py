"""C16: Editor.tla sessions replayed on the real editor over real temporary directories."""
from __future__ import annotations

import json
import multiprocessing as mp
import os
import pathlib
import shutil
import sys
import tempfile
from typing import Any

from vlib import common, tlc, tree

common.import_repo()
from autobean_refactor import editor as editor_lib, models, parser as parser_lib  # noqa: E402

REL = {'a': 'a.bean', 'b': 'b.bean', 'c': 'sub/c.bean', 'd': 'sub/deep/d.bean', 'new': 'new.bean', 'empty': 'empty.bean', 'deep': 'archive/1999/deep.bean'}
SENTINEL_NS = 1_000_000_000 * 1_000_000_000 // 1000  # a fixed old mtime (2001-09-09)
SENTINEL_NS = 1_000_000_000_000_000_000


def content(f: str, incs: list[str], eol: str, root: str = '') -> str:
    lines = [f'; file {f}']
    d = os.path.dirname(REL[f])
    for it in sorted(incs):
        if it == 'star':
            lines.append('include "*.bean"')
        elif it == 'starstar':
            lines.append('include "**/*.bean"')
        elif it == 'nomatch':
            lines.append('include "nope-*.bean"')
        elif it == 'absa':
            # (the include string is a pattern: metacharacters in the directory's name are written escaped)
            lines.append(f'include "{__import__("glob").escape(os.path.join(root, "a.bean"))}"')
        else:
            lines.append(f'include "{os.path.relpath(REL[it], d or ".")}"')
    lines.append(f'2000-01-01 open Assets:{f.upper()}')
    lines.append('    kk: "v"')
    if eol == 'lf':
        return '\n'.join(lines) + '\n'
    if eol == 'crlf':
        return '\r\n'.join(lines) + '\r\n'
    if eol == 'mixed':
        return lines[0] + '\r\n' + '\n'.join(lines[1:]) + '\n'
    return '\n'.join(lines)        # nofinal


_EDITOR = None


def replay(b: dict) -> list[tuple[str, str]]:
    global _EDITOR
    if _EDITOR is None:
        _EDITOR = editor_lib.Editor()
    ed = _EDITOR
    findings: list[tuple[str, str]] = []
    files = sorted(b['inc'])
    top = tempfile.mkdtemp(prefix='verif_c16_')
    # every other session lives in a directory whose NAME contains glob metacharacters: include patterns are
    # resolved relative to it, and only the pattern itself may be read as a pattern
    root = os.path.join(top, 'led[1]' if len(json.dumps(b, sort_keys=True)) % 2 == 0 else 'ledger')
    os.makedirs(root)
    cwd0 = os.getcwd()
    try:
        orig: dict[str, bytes] = {}
        for f in files:
            p = os.path.join(root, REL[f])
            os.makedirs(os.path.dirname(p), exist_ok=True)
            data = content(f, b['inc'][f], b['eol'], root).encode()
            with open(p, 'wb') as fh:
                fh.write(data)
            os.utime(p, ns=(SENTINEL_NS, SENTINEL_NS))
            orig[f] = data
        os.chdir(root)
        sp = b['spelling']
        path: Any = {'abs': os.path.join(root, 'a.bean'), 'dot': './a.bean', 'bare': 'a.bean',
                     'dotdot': 'sub/../a.bean', 'pathlib': pathlib.Path(root) / 'a.bean'}[sp]
        steps = b['steps']
        expect_enter_exc = steps[0]['exc']
        printed: dict[str, bytes] = {}
        token_edited: set[str] = set()
        exc = ''
        parses = []
        orig_parse = parser_lib.Parser.parse

        def counting_parse(self: Any, text: str, target: Any, **kw: Any) -> Any:
            if target is models.File:
                parses.append(text)
            return orig_parse(self, text, target, **kw)
        parser_lib.Parser.parse = counting_parse     # type: ignore[method-assign]
        try:
            cm = ed.edit_file_recursive(path) if b['mode'] == 'recursive' else ed.edit_file(path)
            with cm as mapping:
                entered_parses = len(parses)
                if b['mode'] == 'recursive':
                    keymap = {}
                    for k in mapping:
                        rp = os.path.realpath(k)
                        for f in files:
                            if rp == os.path.realpath(os.path.join(root, REL[f])):
                                keymap.setdefault(f, []).append(k)
                    want = sorted(steps[0]['keys'])
                    if sorted(keymap) != want or any(len(v) != 1 for v in keymap.values()) or len(mapping) != len(want):
                        findings.append(('visit', f'mapping keys {sorted(mapping)} for reachable files {want}'))
                    if entered_parses != len(want):
                        findings.append(('visit', f'{entered_parses} files parsed for {len(want)} reachable files'))
                    model_of = lambda f: mapping[keymap[f][0]]
                else:
                    model_of = lambda f: mapping
                for st in steps[1:]:
                    op = st['op']
                    if op == 'edit':
                        model_of(st['f']).raw_directives.append(models.Close.from_value(__import__('datetime').date(2001, 1, 1), 'Assets:X'))
                    elif op == 'edit-token':
                        # one token changed in place, same extent: "v" -> "w" in the open directive's meta item
                        d0 = [d for d in model_of(st['f']).raw_directives if isinstance(d, models.Open)][0]
                        d0.raw_meta[0].raw_value.value = 'w'
                        token_edited.add(st['f'])
                    elif op == 'respell':
                        k0 = keymap[st['f']][0]
                        k1 = os.path.relpath(k0) if os.path.isabs(k0) else os.path.abspath(k0)
                        mapping[k1] = mapping.pop(k0)
                        keymap[st['f']] = [k1]
                    elif op == 'edit-revert':
                        m = model_of(st['f'])
                        m.raw_directives.append(models.Close.from_value(__import__('datetime').date(2001, 1, 1), 'Assets:X'))
                        m.raw_directives.pop()
                    elif op == 'del':
                        del mapping[keymap[st['f']][0]]
                    elif op == 'add':
                        mapping[os.path.join(os.path.dirname(keymap['a'][0]), 'new.bean')] = tree.parse('2000-01-01 open Assets:New\n')
                    elif op == 'adddeep':
                        mapping[os.path.join(os.path.dirname(keymap['a'][0]), 'archive', '1999', 'deep.bean')] = tree.parse('2000-01-01 open Assets:New\n')
                    elif op == 'addempty':
                        mapping[os.path.join(os.path.dirname(keymap['a'][0]), 'empty.bean')] = tree.parse('')
                    elif op == 'raise':
                        for f in files:
                            if b['mode'] == 'recursive' and f in keymap and keymap[f][0] in mapping:
                                printed[f] = tree.text_of(model_of(f)).encode()
                        raise RuntimeError('body failed')
                    elif op == 'exit':
                        for f in files:
                            if b['mode'] == 'recursive':
                                if f in keymap and keymap[f][0] in mapping:
                                    printed[f] = tree.text_of(model_of(f)).encode()
                            elif f == 'a':
                                printed[f] = tree.text_of(mapping).encode()
        except RuntimeError as e:
            exc = 'RuntimeError' if str(e) == 'body failed' else f'RuntimeError({e})'
        except ValueError as e:
            exc = 'ValueError'
        except Exception as e:  # noqa: BLE001
            exc = f'{type(e).__name__}: {e}'
        finally:
            parser_lib.Parser.parse = orig_parse     # type: ignore[method-assign]
        last = steps[-1]['op']
        want_exc = 'ValueError' if expect_enter_exc else ('RuntimeError' if last == 'raise' else '')
        if exc != want_exc:
            findings.append(('exception', f'session ended with {exc or "no exception"}, expected {want_exc or "no exception"}'))
        final = b['final']
        for f in list(files) + ['new', 'empty', 'deep']:
            p = os.path.join(root, REL[f])
            exp = final[f]
            exists = os.path.exists(p)
            if exists != exp['exists']:
                findings.append(('exists', f'{REL[f]} exists={exists}, expected {exp["exists"]}'))
                continue
            if not exists:
                continue
            data = open(p, 'rb').read()
            mtime = os.stat(p).st_mtime_ns
            if exp['content'] == 'orig':
                if data != orig[f]:
                    findings.append(('bytes', f'{REL[f]} was not edited but its bytes changed: {orig[f]!r} -> {data!r}'))
                elif mtime != SENTINEL_NS:
                    findings.append(('rewritten', f'{REL[f]} was not changed but was rewritten'))
            elif exp['content'] == 'edited':
                if f in printed and data != printed[f]:
                    findings.append(('bytes', f'{REL[f]}: disk {data!r} is not the printed model {printed[f]!r}'))
                if f in token_edited:
                    if data != orig[f].replace(b'kk: "v"', b'kk: "w"'):
                        findings.append(('bytes', f'{REL[f]}: not the original with the one token replaced: {orig[f]!r} -> {data!r}'))
                elif not data.startswith(orig[f].rstrip(b'\r\n')):
                    findings.append(('bytes', f'{REL[f]}: bytes outside the appended directive changed: {orig[f]!r} -> {data!r}'))
                if data == orig[f]:
                    findings.append(('bytes', f'{REL[f]}: edit was not written'))
            elif exp['content'] == 'respelled':
                if data != orig[f]:
                    findings.append(('bytes', f'{REL[f]} was only put back under another spelling but its bytes changed: {orig[f]!r} -> {data!r}'))
            elif exp['content'] == 'empty':
                if data != b'':
                    findings.append(('bytes', f'empty new file has {data!r}'))
            elif exp['content'] == 'new':
                if data != b'2000-01-01 open Assets:New\n':
                    findings.append(('bytes', f'new file has {data!r}'))
        # a follow-up session on the same Editor that changes nothing must not touch the disk
        # (in particular not write edits abandoned by a block that raised)
        snap = {}
        for dp, dn, fn in os.walk(root):
            for n in fn:
                q = os.path.join(dp, n)
                snap[q] = (open(q, 'rb').read(), os.stat(q).st_mtime_ns)
        if os.path.exists(os.path.join(root, 'a.bean')):
            try:
                cm2 = ed.edit_file_recursive(path) if b['mode'] == 'recursive' else ed.edit_file(path)
                with cm2:
                    pass
            except ValueError:
                pass
            except Exception as e:  # noqa: BLE001
                findings.append(('noop-session', f'a second, read-only session raised {type(e).__name__}: {e}'))
            for q, (data0, mt0) in snap.items():
                if not os.path.exists(q):
                    findings.append(('noop-session', f'{os.path.relpath(q, root)} disappeared in a session that changed nothing'))
                elif open(q, 'rb').read() != data0:
                    findings.append(('noop-session', f'{os.path.relpath(q, root)} was rewritten by a session that changed nothing: '
                                                     f'{data0!r} -> {open(q, "rb").read()!r}'))
                elif os.stat(q).st_mtime_ns != mt0:
                    findings.append(('noop-session', f'{os.path.relpath(q, root)} was touched by a session that changed nothing'))
        # nothing else was created
        extra = []
        for dp, dn, fn in os.walk(root):
            for n in fn:
                rel = os.path.relpath(os.path.join(dp, n), root)
                if rel not in REL.values():
                    extra.append(rel)
        if extra:
            findings.append(('extra', f'unexpected files created: {extra}'))
    finally:
        os.chdir(cwd0)
        shutil.rmtree(top, ignore_errors=True)
    return findings


def _chunk(items: list) -> list:
    out = []
    for s in items:
        b = json.loads(s)
        try:
            for kind, msg in replay(b):
                out.append((kind, msg, b))
        except Exception as e:  # noqa: BLE001
            where = common.raised_in_repo(e)
            out.append(('crash' if where else 'machinery', f'{type(e).__name__}: {e}' + (f' (raised in {where})' if where else ''), b))
    return out


def main(prop: str, tier: str) -> int:
    rep = common.Reporter('C16', tier)
    seed = common.seed()
    sp_all = ['abs', 'dot', 'bare', 'dotdot', 'pathlib']
    eol_all = ['lf', 'crlf', 'mixed', 'nofinal']
    if tier == 'quick':
        files = '{"a", "b", "c"}'
        menu = '{{}, {"b"}, {"c"}, {"a"}, {"b", "c"}, {"star"}, {"starstar"}, {"nomatch"}}'
        runs = [dict(Spellings='{"%s"}' % sp_all[seed % 5], Eols='{"%s"}' % eol_all[seed % 4], MaxOps='1',
                     Modes='{"recursive", "single"}', IncMenu=menu),
                dict(Spellings='{"abs", "dot", "bare", "dotdot", "pathlib"}', Eols='{"lf", "crlf", "mixed", "nofinal"}',
                     MaxOps='2', Modes='{"recursive", "single"}', IncMenu='{{}, {"b", "starstar"}, {"a", "c"}}'),
                # an include that names the root by its absolute path, under every spelling of the root itself
                dict(Spellings='{"abs", "dot", "bare", "dotdot", "pathlib"}', Eols='{"lf"}', MaxOps='1', Modes='{"recursive"}',
                     IncMenu='{{}, {"absa"}, {"b"}}')]
    else:
        files = '{"a", "b", "c", "d"}'
        menu = '{{}, {"b"}, {"d"}, {"a"}, {"b", "c"}, {"starstar"}, {"nomatch"}}'
        runs = [dict(Spellings='{"abs", "bare"}', Eols='{"crlf"}', MaxOps='1', Modes='{"recursive"}', IncMenu=menu),
                dict(Spellings='{"abs", "bare", "dotdot"}', Eols='{"crlf", "nofinal"}',
                     MaxOps='2', Modes='{"recursive", "single"}', IncMenu='{{}, {"b", "starstar"}, {"a", "c"}, {"d"}}'),
                dict(Spellings='{"abs", "dot", "bare", "dotdot", "pathlib"}', Eols='{"lf", "crlf"}', MaxOps='1', Modes='{"recursive"}',
                     IncMenu='{{}, {"absa"}, {"b"}}')]
    states = transitions = n = 0
    samples = []
    info = []
    with mp.Pool(16) as pool:
        for c in runs:
            behs: list[str] = []
            cc = dict(Files=files, Dir='[a |-> <<>>, b |-> <<>>, c |-> <<"sub">>, d |-> <<"sub", "deep">>]', **c)
            r = tlc.run('Editor', cc, invariants=['KeysAreReachable', 'RootAlwaysVisited', 'EditedAreKeys', 'ReachClosed'],
                        constraints=['Emit'], on_print=lambda p: behs.append(p[1]), timeout=3000)
            if not r.ok:
                rep.machinery_error(f'Editor TLC run failed: {r.violated} {r.tail[-600:]}')
                continue
            states += r.distinct
            transitions += r.generated
            n += len(behs)
            info.append({'constants': c, 'sessions': len(behs), 'tlc_states': r.distinct})
            if behs:
                samples.append(json.loads(behs[len(behs) // 2]))
            for out in common.gmap(pool, rep, _chunk, list(common.chunked(behs, 100))):
                for kind, msg, b in out:
                    if kind == 'machinery':
                        rep.machinery_error(msg)
                    elif any('absa' in v for v in b['inc'].values()) and b['spelling'] in ('dot', 'bare', 'dotdot') \
                            and b['mode'] == 'recursive':
                        # one file reached under two spellings of its path (relative root, absolute include)
                        rep.violation('C16/root-reached-under-two-spellings', {'what': msg, 'kind': kind, 'session': b})
                    else:
                        rep.violation(f'C16/{kind}/{b["mode"]}/{b["spelling"]}/{b["eol"]}', {'what': msg, 'session': b})
    rep.cov.update({'states': states, 'transitions': transitions, 'traces_validated_against_impl': n, 'runs': info,
                    'samples': samples[:2], 'exhaustive': True,
                    'rule': 'every include graph over the files (each file picks an include set from the menu) x root spelling x '
                            'line ends x every body of up to MaxOps operations x normal / raising exit'})
    rep.assumptions += ['symlink aliases of one file are out of scope (the root reached through an absolute include under a relative spelling is covered)',
                        'an edit is "append a directive" so that original bytes must stay a prefix of the written file']
    return rep.finish()


if __name__ == '__main__':
    sys.exit(main('C16', sys.argv[1] if len(sys.argv) > 1 else 'quick'))

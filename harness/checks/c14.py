"""C14: every block comment has at most one owner, chosen by the documented rules."""
from __future__ import annotations

import sys

from vlib import common
from checks import comments, composite


def main(prop: str, tier: str) -> int:
    rep = common.Reporter('C14', tier)
    composite.add_part(rep, 'ownership_traces', comments.run(rep, tier, 'C14'))
    try:
        from checks import comment_order
        composite.add_part(rep, 'documented_order', comment_order.run(rep, tier))
    except ImportError:
        pass
    from checks import inserted_comments
    composite.add_part(rep, 'inserted_comments_between_fields', inserted_comments.run(rep, tier, {'tree'}))
    rep.cov.setdefault('states', 1)
    rep.cov.setdefault('transitions', 1)
    rep.assumptions += ['documents of <= 3-4 structural lines; call sequences: every single call, auto-claim twice, '
                        'unclaim/claim pairs, random sequences of 2-4 calls']
    return rep.finish()


if __name__ == '__main__':
    sys.exit(main('C14', sys.argv[1] if len(sys.argv) > 1 else 'quick'))

"""C07 / C08 at the token-store level.

1. TLC checks BlockStore.tla (implementation-shaped) against the abstract sequence: design verdict.
2. B1: every behaviour TLC enumerates is replayed into the real TokenStore (load factor patched);
   all observations the property names are compared after every call; block layout = drift.
3. B3: executions of the real store under a randomized workload (larger stores, load factors 2..6
   and the default) are recorded and validated by TLC against TokenSeqTrace.tla.
4. Sensitivity: unrepaired design must fail in TLC; a corrupted trace must be rejected; an in-memory
   mutant of the real class must be caught by the replay.
"""
from __future__ import annotations

import json
import multiprocessing as mp
import random
import sys
from typing import Any

from vlib import common, tlc, tracecheck, storeobs
from checks import store_replay

INVS = ['NoErr', 'FlatOK', 'LenOK', 'IndexOK', 'HandlesOK', 'SizeCacheOK', 'ShapeOK', 'NoDup', 'GettersOK']
PLAIN = '{<<0,1>>}'
MIXED = '{<<0,1>>, <<1,0>>, <<1,2>>, <<0,0>>}'
LINES = '{<<0,1>>, <<1,0>>, <<2,0>>, <<3,1>>}'      # tokens holding 0..3 line breaks


def cfg(L: int, live: int, new: int, sizes: str, lens: str, modes: str, depth: int, hist: bool,
        fixes: str = '{"StaleIndex"}') -> dict[str, str]:
    return dict(L=str(L), MaxTok=str(live + new + 1), MaxLive=str(live), MaxNew=str(new), Sizes=sizes,
                InitLens=lens, InitModes=modes, Fixes=fixes, Depth=str(depth),
                RecordHist='TRUE' if hist else 'FALSE')


def design_configs(prop: str, tier: str) -> list[tuple[str, dict]]:
    if prop == 'C07':
        if tier == 'quick':
            return [('L2-d2', cfg(2, 7, 3, PLAIN, '0..7', '{"plain"}', 2, False)),
                    ('L3-d2', cfg(3, 8, 3, PLAIN, '0..8', '{"plain"}', 2, False))]
        return [('L2-d3', cfg(2, 7, 2, PLAIN, '0..7', '{"plain"}', 3, False)),
                ('L3-d2', cfg(3, 10, 4, PLAIN, '0..10', '{"plain"}', 2, False)),
                ('L4-d2', cfg(4, 11, 4, PLAIN, '0..11', '{"plain"}', 2, False)),
                ('L5-d2', cfg(5, 12, 3, PLAIN, '{0,1,4,5,6,9,10,11,12}', '{"plain"}', 2, False))]
    if tier == 'quick':
        return [('L2-sizes-d2', cfg(2, 4, 2, MIXED, '0..4', '{"plain","onenl","allnl"}', 2, False)),
                ('L3-sizes-d2', cfg(3, 6, 1, MIXED, '{0,3,5,6}', '{"plain","onenl"}', 2, False))]
    return [('L2-sizes-d3', cfg(2, 5, 1, MIXED, '0..5', '{"plain","onenl","allnl"}', 3, False)),
            ('L3-sizes-d2', cfg(3, 7, 2, MIXED, '0..7', '{"plain","onenl","allnl"}', 2, False))]


def gen_configs(prop: str, tier: str) -> list[tuple[str, int, dict]]:
    if prop == 'C07':
        if tier == 'quick':
            return [('L2', 2, cfg(2, 6, 2, PLAIN, '0..6', '{"plain"}', 2, True)),
                    ('L3', 3, cfg(3, 7, 3, PLAIN, '{0,1,3,4,6,7}', '{"plain"}', 2, True)),
                    ('L2-nl', 2, cfg(2, 5, 1, '{<<0,1>>, <<1,0>>}', '{0,3,4,5}', '{"plain","allnl"}', 2, True))]
        return [('L2', 2, cfg(2, 7, 3, PLAIN, '0..7', '{"plain"}', 2, True)),
                ('L2-d3', 2, cfg(2, 5, 2, PLAIN, '{0,2,3,4,5}', '{"plain"}', 3, True)),
                ('L3', 3, cfg(3, 8, 3, PLAIN, '0..8', '{"plain"}', 2, True)),
                ('L4', 4, cfg(4, 9, 4, PLAIN, '{0,3,4,5,8,9}', '{"plain"}', 2, True))]
    if tier == 'quick':
        return [('L2-sizes', 2, cfg(2, 4, 1, MIXED, '0..4', '{"plain","onenl","allnl"}', 2, True)),
                ('L2-lines', 2, cfg(2, 4, 1, LINES, '{2,3,4}', '{"allnl","onenl"}', 2, True))]
    return [('L2-sizes', 2, cfg(2, 5, 2, MIXED, '0..5', '{"plain","onenl","allnl"}', 2, True)),
            ('L3-sizes', 3, cfg(3, 6, 1, MIXED, '{0,2,3,5,6}', '{"plain","onenl","allnl"}', 2, True))]


# ---------------------------------------------------------------------------
# B3 workload on the real store

def random_workload(seed: int, n_traces: int, default_lf_every: int = 0) -> list[dict]:
    from vlib import storerec
    from autobean_refactor import token_store as ts
    rng = random.Random(seed)
    rec = storerec.Recorder()
    rec.install()
    try:
        for k in range(n_traces):
            L = rng.choice([2, 2, 3, 3, 4, 5, 6])
            store_replay.set_load_factor(L)
            n0 = rng.randrange(0, 30)
            texts = ['a', 'bc', '', '\n', 'x\ny', '\r\n', '\n\n  ', 'long token']
            toks = [ts.Token(rng.choice(texts)) for _ in range(n0)]
            store = ts.TokenStore.from_tokens(list(toks))
            rec.observe(store)
            ref = list(toks)
            for _ in range(rng.randrange(1, 12)):
                op = rng.random()
                try:
                    if op < 0.35 or not ref:
                        new = [ts.Token(rng.choice(texts)) for _ in range(rng.randrange(0, 5))]
                        r = rng.randrange(-1, len(ref))
                        store.insert_after(ref[r] if r >= 0 else None, new)
                        ref[r + 1:r + 1] = new
                    elif op < 0.7:
                        a = rng.randrange(0, len(ref))
                        b = min(len(ref) - 1, a + rng.randrange(0, 8))
                        if rng.random() < 0.2:
                            new = list(reversed(ref[a:b + 1]))
                        else:
                            new = [ts.Token(rng.choice(texts)) for _ in range(rng.randrange(0, 4))]
                        which = rng.random()
                        if not new and which < 0.5:
                            store.remove(ref[a], ref[b] if b != a else None)
                        elif len(new) == 1 and a == b and which < 0.5:
                            store.replace(ref[a], new[0])
                        else:
                            store.splice(new, ref[a], ref[b])
                        ref[a:b + 1] = new
                    elif op < 0.8:
                        a = rng.randrange(0, len(ref))
                        new = [ts.Token(rng.choice(texts)) for _ in range(rng.randrange(0, 3))]
                        store.insert_before(ref[a], new)
                        ref[a:a] = new
                    elif op < 0.97:
                        t = rng.choice(ref)
                        t.raw_text = rng.choice(texts)
                    else:
                        # foreign token (strictly outside the range): must be refused
                        if len(ref) >= 4:
                            a = rng.randrange(1, len(ref) - 2)
                            try:
                                store.splice([ref[-1] if a + 2 < len(ref) else ref[0]], ref[a], ref[a])
                            except ValueError:
                                pass
                except Exception:  # noqa: BLE001  (recorded in the trace; the validator judges it)
                    break
    finally:
        rec.uninstall()
        store_replay.set_load_factor(1000)
    return rec.export()


def suite_traces(load_factor: int, timeout: float = 600) -> dict:
    """B3 source (ii): the repository's own tests run under the recorder plugin (in place, nothing written
    into /repo); every store they touch becomes a trace."""
    import os
    import subprocess
    import tempfile
    fd, out = tempfile.mkstemp(prefix='verif_suite_traces_', suffix='.json')
    os.close(fd)
    env = dict(os.environ, PYTHONPATH=os.path.dirname(os.path.dirname(os.path.abspath(__file__))),
               AUTOBEAN_VERIF_TRACE='1', AUTOBEAN_VERIF_TRACE_OUT=out, AUTOBEAN_VERIF_LOAD_FACTOR=str(load_factor),
               PYTHONDONTWRITEBYTECODE='1')
    try:
        p = subprocess.run(['/venv/bin/python', '-m', 'pytest', '-q', '-p', 'no:cacheprovider', '-p', 'autobean_verif_plugin',
                            '-k', 'not benchmark and not token_store_test', '--timeout=600'],
                           cwd=common.REPO, env=env, capture_output=True, text=True, timeout=timeout)
        tail = (p.stdout or '')[-300:]
        try:
            data = json.load(open(out))
        except Exception:  # noqa: BLE001
            data = {'traces': [], 'recorded': 0}
        data['pytest_tail'] = tail.strip().splitlines()[-1] if tail.strip() else ''
        data['pytest_exit'] = p.returncode
        return data
    except subprocess.TimeoutExpired:
        return {'traces': [], 'recorded': 0, 'pytest_tail': 'timed out', 'pytest_exit': -1}
    finally:
        try:
            os.unlink(out)
        except OSError:
            pass


def big_store_workload(seed: int, rounds: int) -> list[tuple[str, str]]:
    """Default load factor (1000): stores of 2.1k-4.5k tokens driven by random splices; checked in
    Python against the plain list with the same battery (too large for TLC traces)."""
    from autobean_refactor import token_store as ts
    rng = random.Random(seed)
    store_replay.set_load_factor(1000)
    bad: list = []
    for k in range(rounds):
        n0 = rng.choice([2100, 3000, 4500])
        ref = [ts.Token(rng.choice(['a', '\n', 'bc ', ''])) for _ in range(n0)]
        store = ts.TokenStore.from_tokens(list(ref))
        removed: list = []
        for step in range(12):
            a = rng.randrange(0, len(ref))
            span = rng.choice([0, 1, 5, 400, 999, 1000, 1001, 1600, 2500])
            b = min(len(ref) - 1, a + span)
            new = [ts.Token(rng.choice(['a', '\n'])) for _ in range(rng.choice([0, 1, 3, 600, 1500, 2100]))]
            try:
                store.splice(new, ref[a], ref[b])
            except Exception as e:  # noqa: BLE001
                bad.append(('crash', f'big store splice: {type(e).__name__}: {e}'))
                break
            removed = ref[a:b + 1]
            ref[a:b + 1] = new
            if not ref:
                break
            for kind, msg in storeobs.observe(store, ref, removed[:50], pairs=True):
                bad.append((kind, f'big store (n0={n0}) step {step}: {msg}'))
            if bad:
                break
    return bad


# ---------------------------------------------------------------------------

def main(prop: str, tier: str) -> int:
    rep = common.Reporter(prop, tier)
    seed = common.seed()
    kinds = store_replay.C07_KINDS if prop == 'C07' else store_replay.C08_KINDS
    states = transitions = 0
    design = []
    # 1. design
    for name, c in design_configs(prop, tier):
        r = tlc.run('BlockStore', c, invariants=INVS, constraints=['Constraint'],
                    timeout=3000 if tier == 'thorough' else 600)
        design.append({'config': name, 'constants': c, 'distinct': r.distinct, 'generated': r.generated,
                       'ok': r.ok, 'wall_s': round(r.wall_s, 1), 'timed_out': r.timed_out})
        states += r.distinct
        transitions += r.generated
        if r.timed_out:
            design[-1]['note'] = 'stopped at the time limit; counts are a lower bound'
        elif not r.ok:
            rep.machinery_error(f'BlockStore design check {name} failed: {r.violated}\n{r.tail[-1500:]}')
    # sensitivity (a): the unrepaired design must be caught by TLC
    r = tlc.run('BlockStore', cfg(2, 7, 1, PLAIN, '{6}', '{"plain"}', 1, False, fixes='{}'),
                invariants=INVS, constraints=['Constraint'], timeout=300)
    sens: dict[str, Any] = {'spec_without_StaleIndex_fix_violates': r.violated}
    if r.ok:
        rep.machinery_error('sensitivity: BlockStore with the StaleIndex deviation was not rejected by TLC')

    # 2. B1 replay
    replayed = steps = drift = 0
    samples: list = []
    drift_samples: list = []
    with mp.Pool(16) as pool:
        for name, L, c in gen_configs(prop, tier):
            behs: list[str] = []
            r = tlc.run('BlockStore', c, invariants=['NoErr', 'FlatOK'], constraints=['Constraint'],
                        timeout=3000, on_print=lambda p: behs.append(p[1]))
            if not r.ok:
                rep.machinery_error(f'behaviour generation {name} failed: {r.violated} {r.tail[-800:]}')
                continue
            if not samples and behs:
                samples.append({'config': name, 'behaviour': json.loads(behs[len(behs) // 2])})
            items = list(enumerate(behs))
            jobs = [(L, ch) for ch in common.chunked(items, 400)]
            for nsteps, out in common.gmap(pool, rep, store_replay.replay_chunk, jobs):
                steps += nsteps
                for k, res, beh in out:
                    drift += res['drift']
                    if res['drift'] and len(drift_samples) < 3:
                        drift_samples.append(beh)
                    for step, kind, msg in res['bad']:
                        if kind in kinds:
                            op = beh[step]['op'] if step < len(beh) else '?'
                            rep.violation(f'store/{kind}/{op}/L{L}',
                                          {'what': msg, 'step': step, 'load_factor': L, 'behaviour': beh,
                                           'how': 'replay of a BlockStore.tla behaviour on the real TokenStore'})
            replayed += len(behs)

    # 3. B3 traces
    n_traces = 1500 if tier == 'quick' else 12000
    traces = random_workload(seed * 7919 + 13, n_traces)
    tv = tracecheck.validate_store_traces(traces)
    for e in tv['errors']:
        rep.machinery_error(f'trace validation: {e}')
    clause_kind = {'row': 'seq', 'len': 'len', 'firstlast': 'first', 'index': 'index', 'nextprev': 'next',
                   'position': 'position', 'not-refused': 'refusal'}
    for ti, step, clause in tv['rejected']:
        kind = clause_kind.get(clause, 'crash')
        if kind in kinds or (kind == 'first' and 'last' in kinds):
            rep.violation(f'store-trace/{clause}/{traces[ti]["events"][step - 1]["op"] if step else "?"}',
                          {'what': f'recorded execution rejected by TokenSeqTrace at event {step}: {clause}',
                           'trace': traces[ti], 'how': 'trace validation (TLC)'})
    # B3 source (ii): traces produced by the repository's own test suite under a small load factor
    st = suite_traces([3, 2, 4, 5][seed % 4])
    suite_info = {k: v for k, v in st.items() if k != 'traces'}
    if st['traces']:
        sv = tracecheck.validate_store_traces(st['traces'])
        for e in sv['errors']:
            rep.machinery_error(f'suite trace validation: {e}')
        suite_info.update({'validated': sv['accepted'] + len(sv['rejected']), 'rejected': len(sv['rejected']),
                           'tlc_states': sv['tlc_states']})
        for ti, step, clause in sv['rejected']:
            kind = clause_kind.get(clause, 'crash')
            if kind in kinds or (kind == 'first' and 'last' in kinds):
                rep.violation(f'suite-trace/{clause}', {'what': f'a store used by the repository\'s tests was rejected by '
                                                                f'TokenSeqTrace at event {step}: {clause}', 'trace': st['traces'][ti]})
    # B3 source (iii): store traces of composed model-level histories (all edit kinds interleaved)
    from checks import compose
    comp = compose.run(rep, tier, prop)
    comp.pop('sample', None)
    # sensitivity (b): a corrupted trace must be rejected
    victims = [t for t in traces if len(t['events']) >= 2 and len(t['events'][-1]['row']) >= 2][:20]
    if victims:
        corrupted = json.loads(json.dumps(victims))
        for t in corrupted:
            row = t['events'][-1]['row']
            row[0], row[1] = row[1], row[0]
        cv = tracecheck.validate_store_traces(corrupted)
        sens['corrupted_traces_rejected'] = f'{len(cv["rejected"])}/{len(corrupted)}'
        if len(cv['rejected']) != len(corrupted):
            rep.machinery_error('sensitivity: a corrupted trace was accepted by TokenSeqTrace')
        if prop == 'C08':
            corrupted = json.loads(json.dumps(victims))
            for t in corrupted:
                t['events'][-1]['pos'][-1][1] += 1
            cv = tracecheck.validate_store_traces(corrupted)
            sens['corrupted_positions_rejected'] = f'{len(cv["rejected"])}/{len(corrupted)}'
            if len(cv['rejected']) != len(corrupted):
                rep.machinery_error('sensitivity: a corrupted position was accepted by TokenSeqTrace')
    # sensitivity (c): in-memory mutant of the real class (never touches /repo)
    from autobean_refactor import token_store as ts
    if hasattr(ts.TokenStore, '_update_block_indexes'):
        orig = ts.TokenStore._update_block_indexes
        ts.TokenStore._update_block_indexes = lambda self, i: None   # type: ignore[method-assign]
        try:
            mut_bad = 0
            behs = []
            tlc.run('BlockStore', cfg(2, 6, 2, PLAIN, '{5,6}', '{"plain"}', 1, True),
                    constraints=['Constraint'], timeout=300, on_print=lambda p: behs.append(p[1]))
            for k, s in enumerate(behs):
                if store_replay.replay(json.loads(s), 2, k)['bad']:
                    mut_bad += 1
            sens['mutant_no_index_update_caught_in'] = f'{mut_bad}/{len(behs)} behaviours'
        finally:
            ts.TokenStore._update_block_indexes = orig       # type: ignore[method-assign]
            store_replay.set_load_factor(1000)
    else:
        sens['mutant_no_index_update'] = 'skipped (method not found)'

    # default load factor
    big = big_store_workload(seed + 5, 2 if tier == 'quick' else 12)
    for kind, msg in big:
        if kind in kinds:
            rep.violation(f'store-big/{kind}', {'what': msg, 'how': 'default load factor, 2.1k-4.5k tokens'})

    rep.cov.update({
        'states': states, 'transitions': transitions,
        'traces_validated_against_impl': replayed + tv['accepted'] + len(tv['rejected']) + suite_info.get('validated', 0) + comp.get('store_traces', 0),
        'behaviours_replayed': replayed, 'replay_steps': steps,
        'recorded_traces_validated': tv['accepted'] + len(tv['rejected']), 'recorded_events': tv['events'],
        'trace_tlc_states': tv['tlc_states'],
        'drift': drift, 'drift_samples': drift_samples,
        'design_checks': design, 'sensitivity': sens, 'repository_suite_traces': suite_info, 'composed_history_traces': comp,
        'samples': samples + ([{'recorded_trace': traces[0]}] if traces else []),
        'exhaustive': True,
        'rule': 'TLC enumerates every call sequence of BlockStore.tla within the listed constants; '
                'each is replayed on the real store and all observations compared after each call',
    })
    rep.assumptions += [
        'load factor is patched through the module globals, as the repository\'s own test does',
        'exhaustive only within the constants listed in design_checks; larger stores by recorded traces and a randomized workload',
        'splices that re-insert the token directly after the replaced range are outside the contract and not judged',
    ]
    return rep.finish()


if __name__ == '__main__':
    sys.exit(main(sys.argv[1], sys.argv[2]))

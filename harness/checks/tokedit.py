"""C02 / C08 at document level (code -> spec): single-token assignments on parsed documents are
recorded (one event per assignment, with the full observation battery) and validated by TLC against
TokenSeqTrace.tla: row identity/order unchanged, every other token keeps its text, the assigned token
carries the new text, and every reported position equals the fold over the actual texts."""
from __future__ import annotations

import itertools
import json
import multiprocessing as mp
import random
import sys
from typing import Any

from vlib import common, doclib, tree, tracecheck

common.import_repo()
from autobean_refactor import models  # noqa: E402

ALTS: dict[str, list[str]] = {
    'DATE': ['1999-12-31', '2000-1-1', '2000/01/02', '2000-1/2'],
    'NUMBER': ['7', '1234.50', '1,234', '0.', '007'],
    'ACCOUNT': ['Assets:B', 'Liabilities:Credit-Card:X1'],
    'CURRENCY': ['AB', "X.Y-Z'1"],
    'ESCAPED_STRING': ['""', '"longer string"', '"two\nlines"', '"a\nb\nc"', '"q\\"q"'],
    'TAG': ['#x', '#longer-tag'],
    'LINK': ['^x', '^longer.link'],
    'META_KEY': ['zz:', 'longer-key:'],
    'BOOL': ['TRUE', 'FALSE'],
    'TRANSACTION_FLAG': ['!', 'txn', '*'],
    'POSTING_FLAG': ['*', '!'],
    'BLOCK_COMMENT': ['; n', '; n1\n; n2', '; m1\n; m2\n; m3', ';', ';x', ';; header', ';\ttab\n;  two blanks'],
    'INLINE_COMMENT': ['; other', ';', ';x', ';;  spaced'],
    'INDENT': ['  ', '\t', '        '],
    'WHITESPACE': ['   ', '\t'],
    '_NEWLINE': ['\n\n', '\r\n'],
    'UNARY_OP': ['+', '-'],
    'ADD_OP': ['+', '-'],
    'MUL_OP': ['*', '/'],
    'IGNORED': ['* other heading', '*'],
}


INVALID: dict[str, list[str]] = {       # raw texts the token type cannot represent: the assignment must be refused
    'DATE': ['xxxx', '2000-13-45', '12345-06-07'], 'NUMBER': ['abc'], 'BOOL': ['MAYBE'], 'BLOCK_COMMENT': ['no semicolon'],
}


def plans_for(f: Any, rng: random.Random, depth2: int, only_invalid: bool = False) -> list[list[tuple[int, str, str]]]:
    toks = list(f.token_store)
    singles = []
    for i, t in enumerate(toks):
        for alt in ALTS.get(t.RULE, []):
            if isinstance(t, models.BlockComment) and t.indent:
                alt = '\n'.join(t.indent + l for l in alt.split('\n'))
            if alt == t.raw_text:
                singles.append((i, 'raw', alt))     # assigning a token its own raw text must change nothing
                continue
            singles.append((i, 'raw', alt))
            if hasattr(type(t), 'value') and not isinstance(t, models.Indent):
                singles.append((i, 'value', alt))
    valid = list(singles)
    inv = []
    for i, t in enumerate(toks):
        for alt in INVALID.get(t.RULE, []):
            inv.append((i, 'raw', alt))
        if t.RULE in ('DATE', 'NUMBER', 'ESCAPED_STRING'):
            inv.append((i, 'badvalue', ''))      # a value the type cannot format: refused, and nothing kept of it
    if only_invalid:
        # refusals at every point of a short history: directly, and after one accepted assignment
        return [[x] for x in inv] + [[rng.choice(valid), x] for x in inv if valid]
    singles = singles + inv
    out = [[s] for s in singles]
    if depth2 and len(singles) >= 2:
        for _ in range(depth2):
            a, b = rng.sample(singles, 2)
            out.append([a, b])
            out.append([a, b, rng.choice(singles)])
    return out


def _chunk(arg: tuple) -> tuple[int, int, list, list]:
    from vlib import storerec
    from checks import store_replay
    seed, flavors, docs, depth2 = arg[:4]
    only_invalid = len(arg) > 4 and arg[4]
    rng = random.Random(seed)
    rec = storerec.Recorder()
    rec.install()
    value_bad = []
    n_docs = n_assign = 0
    try:
        for k, d in enumerate(docs):
            for fl in flavors:
                text = doclib.render(d, fl)
                try:
                    f0 = tree.parse(text)
                except Exception:  # noqa: BLE001
                    continue
                if len(f0.token_store) > storerec.MAX_ROW:
                    continue
                n_docs += 1
                for plan in plans_for(f0, rng, depth2, only_invalid):
                    store_replay.set_load_factor(store_replay.rot(k + len(plan)))
                    f = tree.parse(text)
                    store = f.token_store
                    toks = list(store)
                    rec.observe(store)
                    for i, via, alt in plan:
                        t = toks[i]
                        n_assign += 1
                        invalid = alt in INVALID.get(t.RULE, [])
                        if via == 'badvalue':
                            old_v, old_r = t.value, t.raw_text
                            eb = rec.assign(store, t, lambda: setattr(t, 'value', object()))
                            if eb is not None and (t.value != old_v or t.raw_text != old_r):
                                value_bad.append((text, i, f'a value assignment refused with {type(eb).__name__} left value '
                                                           f'{t.value!r} / text {t.raw_text!r} (was {old_v!r} / {old_r!r})'))
                        elif via == 'raw':
                            e1 = rec.assign(store, t, lambda: setattr(t, 'raw_text', alt), expect_text=alt)
                            if e1 is not None and not invalid:
                                value_bad.append((text, i, f'raw_text = {alt!r} (a lexeme of the type) raised {type(e1).__name__}: {e1}'))
                        else:
                            try:
                                v = type(t).from_raw_text(alt).value
                            except Exception:  # noqa: BLE001
                                continue
                            exc = rec.assign(store, t, lambda: setattr(t, 'value', v))
                            if exc is None and t.value != v:
                                value_bad.append((text, i, f'value assigned from {alt!r} does not read back'))
                            elif exc is not None:
                                value_bad.append((text, i, f'value = {v!r} (in the type\'s domain) raised {type(exc).__name__}: {exc}'))
                # the same through value-level properties of the owning model (x.payee = '', x.account = ...):
                # the property updates ONE token (possibly replacing it by one new token); nothing else moves
                if not only_invalid:
                    from checks import slots
                    f1 = tree.parse(text)
                    for p1, m in tree.walk(f1):
                        if isinstance(m, models.RawTokenModel) or type(m).__name__ == 'Repeated':
                            continue
                        for sl in slots.schema(type(m)):
                            if not sl['val']:
                                continue
                            child = getattr(m, sl['name'])
                            if not isinstance(child, models.RawTokenModel) or not hasattr(type(child), 'value'):
                                continue
                            cur = getattr(m, sl['val'])
                            cands = []
                            if isinstance(cur, str) and isinstance(child, (models.EscapedString, models.InlineComment, models.BlockComment)):
                                cands = ['', cur + 'x']
                            elif isinstance(cur, str) and ALTS.get(child.RULE):
                                try:
                                    cands = [type(child).from_raw_text(ALTS[child.RULE][0]).value]
                                except Exception:  # noqa: BLE001
                                    cands = []
                            for v in cands:
                                f2 = tree.parse(text)
                                m2 = [x for p2, x in tree.walk(f2)][[id(x) for p2, x in tree.walk(f1)].index(id(m))]
                                t2 = getattr(m2, sl['name'])
                                st2 = f2.token_store
                                rec.observe(st2)
                                n_assign += 1
                                e2 = rec.assign(st2, t2, lambda: setattr(m2, sl['val'], v))
                                if e2 is not None:
                                    value_bad.append((text, 0, f'{type(m).__name__}.{sl["val"]} = {v!r} raised {type(e2).__name__}: {e2}'))
                                elif getattr(m2, sl['val']) != v:
                                    value_bad.append((text, 0, f'{type(m).__name__}.{sl["val"]} = {v!r} reads back {getattr(m2, sl["val"])!r}'))
    finally:
        rec.uninstall()
        store_replay.set_load_factor(1000)
    traces = rec.export()
    return n_docs, n_assign, traces, value_bad


def _editor_chunk(arg: tuple) -> tuple[int, list]:
    """The same single-token assignments made inside Editor.edit_file: the file afterwards is the input with exactly
    that token's span replaced (the editor's write-back is a printed output too)."""
    import os
    import shutil
    import tempfile
    from autobean_refactor import editor as editor_lib
    flavors, docs = arg
    out = []
    n = 0
    top = tempfile.mkdtemp(prefix='verif_c02_')
    try:
        ed = editor_lib.Editor()
        for dk, d in enumerate(docs):
            text = doclib.render(d, flavors[0])
            try:
                f0 = tree.parse(text)
            except Exception:  # noqa: BLE001
                continue
            toks = list(f0.token_store)
            spans = []
            pos = 0
            for t in toks:
                spans.append((pos, pos + len(t.raw_text)))
                pos += len(t.raw_text)
            cands = [(i, alt) for i, t in enumerate(toks) for alt in ALTS.get(t.RULE, [])[:2]
                     if alt != t.raw_text and not isinstance(t, (models.BlockComment, models.Indent))]
            for i, alt in cands[:: max(1, len(cands) // 6)]:
                path = os.path.join(top, f'd{dk}_{i}.bean')
                with open(path, 'w', newline='') as fh:
                    fh.write(text)
                try:
                    with ed.edit_file(path) as f:
                        list(f.token_store)[i].raw_text = alt
                except Exception as e:  # noqa: BLE001
                    out.append((text, i, f'editor session with raw_text = {alt!r} raised {type(e).__name__}: {e}'))
                    continue
                n += 1
                with open(path, newline='') as fh:
                    got = fh.read()
                want = text[:spans[i][0]] + alt + text[spans[i][1]:]
                if got != want:
                    out.append((text, i, f'after raw_text = {alt!r} inside Editor.edit_file the file holds {got!r}, expected {want!r}'))
                os.unlink(path)
    finally:
        shutil.rmtree(top, ignore_errors=True)
    return n, out


def core(prop: str, tier: str, rep: common.Reporter) -> dict:
    seed = common.seed()
    if tier == 'quick':
        docs, r = doclib.layouts(max_lines=2, eols=('lf', 'crlf'), finals=(True, False), accepted_only=True)
        docs3, r3 = doclib.layouts(max_lines=3, accepted_only=True)
        rng = random.Random(seed)
        docs3 = [d for d in docs3 if len(d['lines']) == 3]
        docs = docs + rng.sample(docs3, min(len(docs3), 150))
        flavors = [seed % 12]
        depth2 = 4
    else:
        docs, r = doclib.layouts(max_lines=3, eols=('lf', 'crlf'), finals=(True, False), accepted_only=True)
        docs4, r3 = doclib.layouts(max_lines=4, accepted_only=True)
        rng = random.Random(seed)
        docs4 = [d for d in docs4 if len(d['lines']) == 4]
        docs = docs + rng.sample(docs4, min(len(docs4), 1500))
        flavors = [seed % 12, (seed + 5) % 12]
        depth2 = 12
    if not (r.ok and r3.ok):
        rep.machinery_error('Layout TLC run failed')
    n_docs = n_assign = 0
    traces: list = []
    with mp.Pool(16) as pool:
        jobs = [(seed + j, flavors, ch, depth2, prop == 'C19') for j, ch in enumerate(common.chunked(docs, 12))]
        for nd, na, tr, vb in common.gmap(pool, rep, _chunk, jobs):
            n_docs += nd
            n_assign += na
            traces.extend(tr)
            for text, i, alt in vb:
                if alt.startswith('a value assignment refused'):
                    if prop == 'C19':
                        rep.violation('C19/doc-assign/refused-value-kept', {'what': alt, 'text': text, 'token': i})
                elif prop == 'C02':
                    rep.violation('C02/assignment-failed', {'what': alt, 'text': text, 'token': i})
    n_editor = 0
    if prop == 'C02':
        with mp.Pool(16) as pool:
            sample = docs[:: max(1, len(docs) // (240 if tier == 'quick' else 1500))]
            for ne, eo in common.gmap(pool, rep, _editor_chunk, [(flavors, ch) for ch in common.chunked(sample, 12)]):
                n_editor += ne
                for text, i, msg in eo:
                    rep.violation('C02/editor-write-back', {'what': msg, 'text': text, 'token': i})
    tv = tracecheck.validate_store_traces(traces, batch=2500)
    for e in tv['errors']:
        rep.machinery_error(f'trace validation: {e}')
    mine = {'C02': {'row', 'len', 'firstlast', 'other-token-text', 'assigned-text', 'nextprev'},
            'C08': {'position', 'index'}, 'C19': {'refused-assign-changed-text'}}[prop]
    for ti, step, clause in tv['rejected']:
        ev = traces[ti]['events'][step - 1] if step else {}
        if clause in mine or clause.startswith('raised-'):
            if clause.startswith('raised-') and prop != 'C02':
                continue
            rep.violation(f'{prop}/doc-assign/{clause}',
                          {'what': f'recorded execution rejected by TokenSeqTrace at event {step}: {clause}',
                           'trace': traces[ti]})
    # sensitivity: corrupt one recorded field
    sens = {}
    victims = [t for t in traces if len(t['events']) >= 2 and len(t['events'][-1]['row']) >= 3
               and t['events'][-1]['op'] == 'assign' and not t['events'][-1]['exc']][:10]
    if victims:
        c = json.loads(json.dumps(victims))
        for t in c:
            if prop in ('C02', 'C19'):
                t['events'][-1]['txt'][0] += 1000 if t['events'][-1]['row'][0] != t['events'][-1]['r'] else 0
                t['events'][-1]['txt'][-1] += 1000 if t['events'][-1]['row'][-1] != t['events'][-1]['r'] else 0
            else:
                t['events'][-1]['pos'][-1][1] += 1
        cv = tracecheck.validate_store_traces(c)
        sens['corrupted_traces_rejected'] = f'{len(cv["rejected"])}/{len(c)}'
        if len(cv['rejected']) != len(c):
            rep.machinery_error('sensitivity: a corrupted trace was accepted')
    cov = {
        'states': tv['tlc_states'] + r.distinct + r3.distinct, 'transitions': tv['tlc_transitions'] + r.generated + r3.generated,
        'traces_validated_against_impl': tv['accepted'] + len(tv['rejected']),
        'documents': n_docs, 'assignments': n_assign, 'assignments_inside_editor_sessions': n_editor, 'recorded_events': tv['events'], 'sensitivity': sens,
        'samples': [traces[len(traces) // 2]] if traces else [],
        'rule': 'every token of every Layout document (per-kind replacement texts: same width, wider, narrower, '
                'adding / removing line breaks; via value and via raw_text), plus random sequences of 2-3 assignments; '
                'load factor rotated over 2, 3, 4 and the default',
    }
    return cov


def refusal_part(rep: common.Reporter, tier: str) -> dict:
    c = core('C19', 'quick', rep)
    return {'states': c['states'], 'transitions': c['transitions'], 'behaviours': c['traces_validated_against_impl'],
            'assignments': c['assignments']}


def main(prop: str, tier: str) -> int:
    rep = common.Reporter(prop, tier)
    rep.cov.update(core(prop, tier, rep))
    rep.assumptions += ['replacement texts are a few representatives per token kind',
                        'documents with more than 48 tokens are not recorded']
    return rep.finish()


if __name__ == '__main__':
    sys.exit(main(sys.argv[1], sys.argv[2]))

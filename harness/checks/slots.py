"""Slots.tla replayed on every model class (spec -> code): optional / required children set, cleared and
replaced through the node-level and the value-level API.  Schemas, hosts and donors are found
reflectively.  Serves C03 (frame), C05 (tree), C06 (re-parse), C09 (read-back), C19 (refusals)."""
from __future__ import annotations

import copy
import json
import multiprocessing as mp
import typing
from typing import Any, Optional

from vlib import common, tlc, tree

common.import_repo()
from autobean_refactor import models  # noqa: E402
from autobean_refactor.models import base  # noqa: E402

FULL = '''; lead option
option "title" "x" ; ic
; trail option

include "a.bean" ; ic
plugin "mod" "cfg" ; ic
pushtag #tag ; ic
poptag #tag ; ic
pushmeta kk: 1 ; ic
popmeta kk: ; ic
; lead open
2000-01-01 open Assets:A USD, EUR "STRICT" ; ic
    kk: 1 ; ic
; trail open

2000-01-01 close Assets:A ; ic
    kk: "v"
2000-01-01 commodity USD ; ic
2000-01-01 pad Assets:A Equity:B ; ic
2000-01-01 event "location" "Paris" ; ic
2000-01-01 query "name" "SELECT" ; ic
2000-01-01 price USD 1.5 EUR ; ic
2000-01-01 note Assets:A "text" #tag ^link ; ic
2000-01-01 document Assets:A "/path" ; ic
2000-01-01 balance Assets:A 10 ~ 0.1 USD ; ic
2000-01-01 custom "budget" "x" 1 TRUE ; ic
2000-01-01 * "payee" "narration" #tag ^link ; ic
    kk: 1
    ; lead posting
    ! Assets:A  1 USD {2 EUR, 2000-01-01} @ 3 CAD ; ic
        pk: 2
    Assets:B  4 USD {{5 # 6 EUR}} @@ 7 CAD
    Assets:C  (1 + 2) * -3 USD
* heading
'''

MIN = '''option "title" "x"
plugin "mod"
pushmeta kk:
2000-01-01 open Assets:A
2000-01-01 close Assets:A
2000-01-01 balance Assets:A 10 USD
2000-01-01 note Assets:A "text"
2000-01-01 custom "budget"
2000-01-01 *
    Assets:A
    Assets:B  4 USD
    Assets:C  {}
    Assets:D  1 USD @
2000-01-02 *
    kk:
'''

_SUBST = [('"title"', '"other"'), ('"x"', '"yy"'), ('a.bean', 'bb.bean'), ('"mod"', '"mod2"'), ('"cfg"', '"cfg2"'),
          ('#tag', '#tag2'), ('kk:', 'zz:'), ('Assets:A', 'Assets:Zed'), ('Assets:B', 'Assets:Yb'), ('Assets:C', 'Assets:Xc'),
          ('Equity:B', 'Equity:Qq'), ('USD', 'JPY'), ('EUR', 'GBP'), ('CAD', 'CHF'), ('"STRICT"', '"NONE"'),
          ('2000-01-01', '2011-11-11'), ('"v"', '"w"'), ('"location"', '"loc2"'), ('"Paris"', '"Rome"'),
          ('"name"', '"name2"'), ('"SELECT"', '"SELECT 2"'), ('1.5', '2.75'), ('"text"', '"text2"'), ('^link', '^link2'),
          ('"/path"', '"/path2"'), ('0.1', '0.25'), ('"budget"', '"budget2"'), ('TRUE', 'FALSE'),
          ('"payee"', '"payee2"'), ('"narration"', '"narration2"'), ('; ic', '; ic2'), ('lead', 'LEAD'), ('trail', 'TRAIL'),
          (' 10 ', ' 99 '), ('pk:', 'qk:'), ('! ', '* '), ('heading', 'other heading')]


def donor_text() -> str:
    t = FULL
    for a, b in _SUBST:
        t = t.replace(a, b)
    return t


COMPACT = '''option"title""x";ic
plugin"mod""cfg";ic
pushmeta kk:1;ic
2000-01-01 open Assets:A USD,EUR"STRICT";ic
    kk:1;ic
2000-01-01 balance Assets:A 10~0.1USD;ic
2000-01-01 note Assets:A"text"#tag^link;ic
2000-01-01 *"payee""narration"#tag^link;ic
    kk:"v"
    !Assets:A 1USD{2EUR,2000-01-01}@3CAD;ic
        pk:2
    Assets:B 4USD{{5#6EUR}}@@7CAD
    Assets:C (1+2)*-3USD
'''

DOCS = {'full': FULL, 'min': MIN, 'compact': COMPACT}
SKIP_SLOTS = {'raw_string0', 'raw_string1', 'raw_string2'}


def schema(cls: type) -> list[dict]:
    out = []
    seen = set()
    props = {}
    for k in cls.__mro__:
        for a, v in vars(k).items():
            if a in seen:
                continue
            seen.add(a)
            props[a] = v
    done = set()
    for a, v in sorted(props.items(), key=lambda kv: (not kv[0].startswith('raw_'), kv[0])):
        t = type(v).__name__
        if a.startswith('_') or a in SKIP_SLOTS or id(v) in done:
            continue
        if t in ('optional_node_property', 'required_node_property'):
            done.add(id(v))      # `cost = raw_cost` style aliases are one slot
            oc = getattr(v._inner_field, '__orig_class__', None)
            types = typing.get_args(oc) if oc else ()
            flat: list = []
            for ty in types:
                flat += list(typing.get_args(ty)) if typing.get_origin(ty) is typing.Union or str(type(ty)) == "<class 'types.UnionType'>" else [ty]
            val = next((b for b, w in props.items() if not b.startswith('_') and getattr(w, '_inner_property', None) is v
                        and type(w).__name__ != 'unordered_node_property'), None)
            out.append({'name': a, 'kind': 'opt' if t == 'optional_node_property' else 'req', 'val': val, 'types': tuple(flat)})
        elif t in ('repeated_node_property', 'repeated_node_with_interleaving_comments_property'):
            done.add(id(v))
            out.append({'name': a, 'kind': 'rep', 'val': None, 'types': ()})   # the whole list as one child
    return out


def find_hosts() -> dict[str, dict]:
    """class name -> {'slots': schema, 'inits': [(doc, path, presence)]}"""
    hosts: dict[str, dict] = {}
    for doc, text in DOCS.items():
        f = tree.parse(text)
        for path, m in tree.walk(f):
            if not isinstance(m, base.RawTreeModel) or type(m).__name__ == 'Repeated':
                continue
            sc = schema(type(m))
            if not sc:
                continue
            pres = tuple(getattr(m, s['name']) is not None for s in sc)
            h = hosts.setdefault(type(m).__name__, {'slots': sc, 'inits': []})
            if all((p != pres or dn != doc) for dn, _, p in h['inits']) and sum(1 for dn, _, _ in h['inits'] if dn == doc) < 2 \
                    and len(h['inits']) < 5:
                h['inits'].append((doc, path, pres))
    return hosts


def tla_classes(hosts: dict[str, dict]) -> str:
    parts = []
    for cname, h in sorted(hosts.items()):
        slots = ', '.join(f'[name |-> "{s["name"]}", kind |-> "{s["kind"]}", val |-> {"TRUE" if s["val"] else "FALSE"}]'
                          for s in h['slots'])
        inits = ', '.join('<<' + ', '.join('TRUE' if p else 'FALSE' for p in pres) + '>>' for _, _, pres in h['inits'])
        parts.append(f'{cname} |-> [slots |-> <<{slots}>>, inits |-> <<{inits}>>]')
    return '[' + ',\n '.join(parts) + ']'


def at_path(root: Any, path: str) -> Any:
    for p, m in tree.walk(root):
        if p == path:
            return m
    raise KeyError(path)


class Donors:
    def __init__(self) -> None:
        self.doc = tree.parse(donor_text())
        self.by_type: dict[type, list] = {}
        self.by_class_slot: dict[tuple[str, str], Any] = {}
        self.empty_cache: dict = {}
        for path, m in tree.walk(self.doc):
            self.by_type.setdefault(type(m), []).append(m)
            if isinstance(m, base.RawTreeModel) and type(m).__name__ != 'Repeated':
                for s in schema(type(m)):
                    ch = getattr(m, s['name'])
                    if ch is not None:
                        self.by_class_slot.setdefault((type(m).__name__, s['name']), (m, ch))

    def empty_list_donor(self, cname: str, slot: dict) -> Optional[Any]:
        """The (empty) repeated wrapper of an instance of the class that is alone in a document without a
        final newline: its first and last token (one zero-width placeholder) look exactly like the first
        and last token of its store, yet it is only a part of it."""
        key = (cname, slot['name'])
        if key not in self.empty_cache:
            self.empty_cache[key] = None
            fmin = tree.parse(MIN)
            for p0, m0 in tree.walk(fmin):
                if type(m0).__name__ == cname and isinstance(m0, base.RawTreeModel):
                    try:
                        alone = tree.parse(tree.text_of(m0).rstrip('\n'))
                    except Exception:  # noqa: BLE001
                        continue
                    for p1, m1 in tree.walk(alone):
                        if type(m1).__name__ == cname and len(getattr(m1, slot['name'])) == 0:
                            self.empty_cache[key] = (alone, getattr(m1, slot['name']))
                            break
                    if self.empty_cache[key]:
                        break
        hit = self.empty_cache[key]
        return hit[1] if hit else None

    def node(self, cname: str, slot: dict) -> Optional[Any]:
        """An attached node of the donor document suitable for this slot."""
        hit = self.by_class_slot.get((cname, slot['name']))
        if hit:
            return hit[1]
        for ty in slot['types']:
            for t2, lst in self.by_type.items():
                if isinstance(ty, type) and issubclass(t2, ty):
                    return lst[0]
        return None

    def value(self, cname: str, slot: dict) -> Any:
        hit = self.by_class_slot.get((cname, slot['name']))
        if hit and slot['val']:
            return getattr(hit[0], slot['val'])
        return None


_DONORS: Optional[Donors] = None


def donors() -> Donors:
    global _DONORS
    if _DONORS is None:
        _DONORS = Donors()
    return _DONORS


SEP_TYPES = (models.Whitespace, models.Newline, models.Comma)


def node_of(x: Any) -> Any:
    """Repeated-field wrappers stand for their Repeated node."""
    return getattr(x, 'repeated', x)


def ntext(x: Any) -> Optional[str]:
    return None if x is None else tree.text_of(node_of(x))


def value_props(m: Any) -> dict[str, Any]:
    out = {}
    for s in schema(type(m)):
        if s['val']:
            try:
                v = getattr(m, s['val'])
                out[s['val']] = tree.text_of(v) if isinstance(v, base.RawModel) else v
            except Exception as e:  # noqa: BLE001
                out[s['val']] = f'<{type(e).__name__}>'
    return out


def derived_views(m: Any) -> list[str]:
    """Names of the cached views a model derives from its repeated fields (tags / links / postings / meta ...)."""
    from autobean_refactor.models.internal import properties as props_lib
    out = []
    for k in type(m).__mro__:
        for a, v in vars(k).items():
            if isinstance(v, props_lib.cached_custom_property) and not a.startswith('_') and a not in out:
                out.append(a)
    return out


def view_norm(x: Any) -> Any:
    if isinstance(x, base.RawModel):
        return ('model', type(x).__name__, tree.text_of(x).strip())
    return ('value', repr(x))


def replay(hosts: dict, beh: dict, check: set[str]) -> tuple[list, int]:
    cname = beh['cls']
    h = hosts[cname]
    doc, path, pres0 = h['inits'][beh['init'] - 1]
    f = tree.parse(DOCS[doc])
    m = at_path(f, path)
    sc = h['slots']
    dn = donors()
    findings: list = []
    steps = 0

    def add(kind: str, ev: dict, msg: str) -> None:
        if doc == 'compact' and kind in ('reparse', 'readback') and ev['op'] in ('clear', 'vclear') and 're-parse' in msg:
            # the recorded defect, and only it: removing a child glued to its right neighbour also removes the only
            # separator on its left, so the two neighbours - both still there, untouched - merge on re-parse.
            # Anything else (a sibling's token gone too, text changed elsewhere) keeps its own fingerprint.
            gone = [t for t in before_toks if id(t) not in {id(x) for x in now_toks} and id(t) not in cur_tokens
                    and t.raw_text and not isinstance(t, SEP_TYPES)]
            if not gone:
                findings.append(('slots/compact-source/neighbours-merged-after-removal', kind, msg))
                return
        findings.append((f'slots/{cname}.{ev["name"]}/{ev["op"]}/{kind}', kind, msg))

    views = derived_views(m)
    for vn in views:        # every view has been read (and cached) before the first edit
        try:
            list(getattr(m, vn))
        except Exception:  # noqa: BLE001
            pass
    for ev in beh['steps'][1:]:
        s = sc[ev['slot'] - 1]
        op = ev['op']
        store = f.token_store
        before_toks = list(store)
        before_text = ''.join(t.raw_text for t in before_toks)
        sib = {}
        for j, sj in enumerate(sc):
            if j != ev['slot'] - 1:
                ch = getattr(m, sj['name'])
                sib[sj['name']] = (id(ch) if ch is not None else None, ntext(ch))
        vals0 = value_props(m)
        pf, pl = m.first_token, m.last_token
        a0, b0 = store.get_index(pf), store.get_index(pl)
        outside0 = before_toks[:a0] + before_toks[b0 + 1:]
        cur = getattr(m, s['name'])
        cur_tokens = {id(t) for t in node_of(cur).tokens} if cur is not None else set()
        donor = None
        value = None
        exc = ''
        try:
            if op == 'set':
                src = dn.node(cname, s)
                if src is None:
                    break
                donor = copy.deepcopy(src)
                if isinstance(donor, models.BlockComment):
                    # a raw node must carry an indent that fits where it is put
                    ind = m.raw_indent.value if hasattr(m, 'raw_indent') else ''
                    donor = models.BlockComment.from_value(donor.value, indent=ind)
                if s['kind'] == 'rep' and len(donor) > 0:
                    donor.pop(0)       # a list that differs from the current one (the derived views must follow)
                setattr(m, s['name'], donor)
            elif op == 'clear':
                setattr(m, s['name'], None)
            elif op == 'same':
                setattr(m, s['name'], cur)
            elif op == 'vset':
                value = dn.value(cname, s)
                if value is None:
                    break
                if isinstance(value, base.RawModel):
                    value = copy.deepcopy(value)
                setattr(m, s['val'], value)
            elif op == 'vsetedge':
                base_v = dn.value(cname, s)
                import decimal as _d
                if isinstance(base_v, _d.Decimal):
                    # zero, and numbers with more digits than the decimal context keeps in arithmetic (28)
                    value = [_d.Decimal(0), _d.Decimal('1.2345678901234567890123456789012'),
                             _d.Decimal('-98765432109876543210.123456789012')][(ev['slot'] + sum(map(ord, cname))) % 3]
                elif isinstance(base_v, str) and any(t in (models.EscapedString, models.InlineComment, models.BlockComment) for t in s['types']):
                    value = ''
                else:
                    break
                setattr(m, s['val'], value)
            elif op == 'vsetsame':
                value = getattr(m, s['val'])
                if value is None:
                    break
                if isinstance(value, base.RawModel):
                    break
                setattr(m, s['val'], value)
            elif op == 'vclear':
                setattr(m, s['val'], None)
            elif op.startswith('attached'):
                if op.endswith('other'):
                    donor = dn.node(cname, s)
                    if s['kind'] == 'rep':
                        e = dn.empty_list_donor(cname, s)
                        donor = e if e is not None else donor      # (an empty wrapper is falsy)
                else:
                    donor = next((x for p2, x in tree.walk(f) if x is not cur and cur is not None and type(x) is type(cur)
                                  and not (id(x.first_token) in cur_tokens)), None) if s['kind'] != 'rep' else None
                if donor is None:
                    break
                setattr(m, s['name'], donor)
        except ValueError:
            exc = 'ValueError'
        except Exception as e:  # noqa: BLE001
            exc = type(e).__name__
        steps += 1
        now_toks = list(store)
        text = ''.join(t.raw_text for t in now_toks)
        if exc != ev['exc']:
            if 'exc' in check:
                add('exc', ev, f'expected {ev["exc"] or "success"}, got {exc or "success"}; text {text!r}')
            if ev['exc'] and not exc and 'tree' in check:
                bad = tree.wellformed(f)
                if bad:
                    add('tree', ev, 'after an attached node was accepted: ' + '; '.join(bad[:3]))
            if ev['exc'] and exc != ev['exc'] and 'refusal' in check:
                add('refusal', ev, f'a node that already lives in a document was accepted; text now {text!r}')
            break
        if exc:
            if 'refusal' in check and (text != before_text or len(now_toks) != len(before_toks)
                                       or any(x is not y for x, y in zip(now_toks, before_toks))):
                add('refusal', ev, f'document changed by a refused call: {before_text!r} -> {text!r}')
                break
            continue
        pres = [getattr(m, sj['name']) is not None for sj in sc]
        if pres != ev['present']:
            if 'presence' in check:
                add('presence', ev, f'slots present {pres}, specification {ev["present"]}')
            break
        if 'frame' in check:
            for j, sj in enumerate(sc):
                if j == ev['slot'] - 1:
                    continue
                ch = getattr(m, sj['name'])
                nowv = (id(ch) if ch is not None else None, ntext(ch))
                if nowv != sib[sj['name']]:
                    add('frame', ev, f'sibling {sj["name"]} changed: {sib[sj["name"]][1]!r} -> {nowv[1]!r}')
            now_child = getattr(m, s['name'])
            if op == 'set' and (now_child is not donor if s['kind'] != 'rep'
                                else getattr(now_child, 'repeated', None) is not getattr(donor, 'repeated', donor)):
                # (a whole repeated field is handed over as a wrapper: the list inside it is what must be the child)
                add('frame', ev, 'the assigned node is not the slot\'s child afterwards')
            a1, b1 = store.get_index(m.first_token), store.get_index(m.last_token)
            outside1 = now_toks[:a1] + now_toks[b1 + 1:]
            # leading / trailing comment slots move the parent's own boundary: compare modulo the child's tokens
            new_child = getattr(m, s['name'])
            child_ids = cur_tokens | ({id(t) for t in node_of(new_child).tokens} if new_child is not None else set())
            o0 = [t for t in outside0 if id(t) not in child_ids and not isinstance(t, SEP_TYPES)]
            o1 = [t for t in outside1 if id(t) not in child_ids and not isinstance(t, SEP_TYPES)]
            if len(o0) != len(o1) or any(x is not y for x, y in zip(o0, o1)):
                add('frame', ev, 'tokens outside the parent changed')
            oldset = {id(t) for t in before_toks}
            nowset = {id(t) for t in now_toks}
            for t in before_toks:
                if id(t) not in nowset and id(t) not in child_ids and not (isinstance(t, SEP_TYPES) or not t.raw_text):
                    add('frame', ev, f'token {t!r} outside the child disappeared')
            for t in now_toks:
                if id(t) not in oldset and id(t) not in child_ids and not (isinstance(t, SEP_TYPES) or not t.raw_text):
                    if op in ('vset', 'vsetedge', 'vsetsame'):
                        continue      # value-level writes create the child themselves
                    add('frame', ev, f'token {t!r} outside the child appeared')
        if 'readback' in check and op in ('vset', 'vsetedge', 'vsetsame', 'vclear'):
            got = getattr(m, s['val'])
            want = value if op in ('vset', 'vsetedge', 'vsetsame') else None
            gv = tree.text_of(got) if isinstance(got, base.RawModel) else got
            wv = tree.text_of(want) if isinstance(want, base.RawModel) else want
            if gv != wv:
                add('readback', ev, f'{s["val"]} reads {gv!r} after assigning {wv!r}')
            vals1 = value_props(m)
            for k, v in vals1.items():
                if k != s['val'] and vals0.get(k) != v:
                    add('readback', ev, f'other property {k} changed from {vals0.get(k)!r} to {v!r}')
        if {'reparse', 'readback', 'views'} & check:
            tainted = False
            try:
                f2 = tree.parse(text)
                differs = tree.content(f2) != tree.content(f)
                tainted = differs and doc == 'compact' and op in ('clear', 'vclear')
                if 'reparse' in check and differs:
                    add('reparse', ev, f'content differs after re-parse of {text!r}')
                if 'readback' in check and op in ('vset', 'vsetedge', 'vsetsame', 'vclear'):
                    m2 = at_path(f2, path)
                    # which model a comment is attributed to may differ after re-parse (attribution aside)
                    strip = lambda d: {k: v for k, v in d.items() if k not in ('leading_comment', 'trailing_comment')}
                    if strip(value_props(m2)) != strip(value_props(m)):
                        add('readback', ev, f'value properties differ after re-parse: {value_props(m2)} vs {value_props(m)}')
            except KeyError:
                pass
            except Exception as e:  # noqa: BLE001
                if 'reparse' in check:
                    add('reparse', ev, f'printed text does not parse ({type(e).__name__}): {text!r}')
            if views and not findings and not tainted and ({'views', 'reparse', 'readback'} & check):
                # the cached views derived from the repeated fields still show the current lists: element for
                # element what the re-parsed document shows, and (node views) the very objects of the raw lists
                try:
                    f3 = tree.parse(text)
                    m3 = at_path(f3, path)
                    raw_ids = set()
                    for sj in sc:
                        if sj['kind'] == 'rep':
                            raw_ids |= {id(x) for x in getattr(m, sj['name'])}
                    for sj in sc:
                        if sj['kind'] != 'rep':
                            continue
                        desc = next((vars(k)[sj['name']] for k in type(m).__mro__ if sj['name'] in vars(k)), None)
                        if type(desc).__name__ == 'repeated_node_with_interleaving_comments_property':
                            # the field still is a list with interleaving comments: the attribution calls exist and
                            # (being no edits) leave the text alone
                            w = getattr(m, sj['name'])
                            t0 = tree.text_of(f)
                            try:
                                w.unclaim_interleaving_comments()
                                w.claim_interleaving_comments()
                            except AttributeError as e:
                                add('views', ev, f'{sj["name"]} lost its attribution calls: {e}')
                            if tree.text_of(f) != t0:
                                add('views', ev, f'unclaim + claim on {sj["name"]} changed the text')
                    for vn in views:
                        mem = list(getattr(m, vn))
                        rep3 = list(getattr(m3, vn))
                        if [view_norm(x) for x in mem] != [view_norm(x) for x in rep3]:
                            add('views', ev, f'view {vn} shows {[view_norm(x)[-1] for x in mem]}, the printed document has '
                                             f'{[view_norm(x)[-1] for x in rep3]}')
                        elif any(isinstance(x, base.RawModel) and id(x) not in raw_ids for x in mem):
                            add('views', ev, f'view {vn} holds objects that are not elements of the raw list')
                except KeyError:
                    pass
                except Exception as e:  # noqa: BLE001
                    if common.raised_in_repo(e):
                        add('views', ev, f'a derived view cannot be read: {type(e).__name__}: {e}')
            if tainted and not findings:
                # the known compact-source defect (a removal merged two neighbours) struck on a step this property
                # does not judge: the rest of this history runs on a document that no longer says what the tree
                # says, so it is not continued (it is judged, and reported, where the removal itself is in scope)
                break
        if 'tree' in check:
            bad = tree.wellformed(f)
            if bad:
                add('tree', ev, '; '.join(bad[:3]))
        if findings:
            break
    return findings, steps


_HOSTS: Optional[dict] = None


def _chunk(arg: tuple) -> tuple[int, list]:
    global _HOSTS
    check, items = arg
    if _HOSTS is None:
        _HOSTS = find_hosts()
    out = []
    steps = 0
    from checks import store_replay
    for bk, s in enumerate(items):
        beh = json.loads(s)
        store_replay.set_load_factor(store_replay.rot(bk + len(s)))      # block sizes and shapes under the edited document
        try:
            fnd, st = replay(_HOSTS, beh, set(check))
        except Exception as e:  # noqa: BLE001
            where = common.raised_in_repo(e)
            if where:
                last = beh['steps'][-1]
                out.append((f'slots/{beh["cls"]}/unobservable', 'unobservable',
                            f'after {[(x.get("op"), x.get("name")) for x in beh["steps"][1:]]} the document cannot be read any more: '
                            f'{type(e).__name__}: {e} (raised in {where})', beh))
            else:
                out.append(('machinery', 'machinery', f'{type(e).__name__}: {e} in {beh["cls"]}', beh))
            continue
        steps += st
        for fp, kind, msg in fnd:
            out.append((fp, kind, msg, beh))
    store_replay.set_load_factor(1000)
    return steps, out


ALL_OPS = '{"set", "clear", "same", "vset", "vsetedge", "vsetsame", "vclear", "attached"}'


def run(rep: common.Reporter, tier: str, check: set[str], plans: Optional[list] = None) -> dict:
    hosts = find_hosts()
    if plans is not None:
        pass
    elif tier == 'quick':
        plans = [(1, ALL_OPS, 'TRUE'), (2, '{"set", "clear", "vset", "vsetsame"}', 'FALSE')]
    else:
        plans = [(2, ALL_OPS, 'TRUE')]
    behs: list[str] = []
    states = transitions = 0
    for depth, ops, att in plans:
        r = tlc.run('Slots', {'Classes': tla_classes(hosts), 'Depth': str(depth), 'OpSet': ops, 'WithAttached': att},
                    invariants=['FrameOK', 'RefusalOK', 'RequiredOK'], constraints=['Emit'],
                    on_print=lambda p: behs.append(p[1]), timeout=3000)
        if not r.ok:
            rep.machinery_error(f'Slots TLC run failed: {r.violated} {r.tail[-800:]}')
            return {}
        states += r.distinct
        transitions += r.generated
    steps = 0
    with mp.Pool(16) as pool:
        for st, out in common.gmap(pool, rep, _chunk, [(sorted(check), ch) for ch in common.chunked(behs, 200)]):
            steps += st
            for fp, kind, msg, beh in out:
                if kind == 'machinery':
                    rep.machinery_error(msg)
                elif kind in check or kind == 'unobservable' or (kind == 'views' and {'reparse', 'readback'} & set(check)):
                    rep.violation(fp, {'kind': kind, 'what': msg, 'behaviour': beh})
    return {'states': states, 'transitions': transitions, 'behaviours': len(behs), 'steps': steps,
            'classes': len(hosts), 'slots': sum(len(h['slots']) for h in hosts.values()),
            'sample': json.loads(behs[len(behs) // 2]) if behs else None}


def refusal_part(rep: common.Reporter, tier: str) -> dict:
    # attached donors directly, and after one accepted edit
    return run(rep, tier, {'refusal'}, plans=[(1, '{"attached"}', 'TRUE'), (2, '{"attached", "set", "clear"}', 'TRUE')] if tier != 'quick'
               else [(1, '{"attached"}', 'TRUE')])

"""MetaValue.tla behaviours replayed on real meta items / pushmeta directives (spec -> code).

After every assignment: the property reads back the assigned value (kind and value), siblings read as before, the
text changed only between the key and the rest of the line, every other token kept its identity, the printed
document re-parses to the same kind and value, the tree is well-formed.  Which clauses are judged depends on
the property the part runs for (C09: readback + reparse, C03: frame, C06: reparse, C05: tree)."""
from __future__ import annotations

import datetime
import decimal
import json
import multiprocessing as mp
import re
from typing import Any, Optional

from vlib import common, tlc, tree

common.import_repo()
from autobean_refactor import models  # noqa: E402

D = decimal.Decimal
KINDS = '{"none", "str", "date", "num", "bool", "null", "account", "currency", "tag", "amount"}'

# (name, text with {V} where ' value' goes (leading blank included when there is a value), path to the item, has map route)
HOSTS = [
    ('open-meta-middle', '2000-01-01 open Assets:A\n    k0: "x"\n    kk:{V}\n    k2: 5\n', ('d', 0, 'm', 1), True),
    ('posting-meta-last', '2000-01-01 *\n    Assets:A  1 USD\n        kk:{V}\n    Assets:B\n', ('p', 0, 0, 'm', 0), True),
    ('open-meta-inline-comment', '2000-01-01 open Assets:A\n    kk:{V} ; note\n2000-01-02 close Assets:A\n', ('d', 0, 'm', 0), True),
    ('txn-meta-first', '2000-01-01 * "n"\n    kk:{V}\n    k2: TRUE\n    Assets:A\n', ('d', 0, 'm', 0), True),
    ('pushmeta', 'pushmeta kk:{V}\npopmeta kk:\n', ('d', 0), False),
]
MODEL_OF = {'str': models.EscapedString, 'date': models.Date, 'num': models.NumberExpr, 'bool': models.Bool,
            'null': models.Null, 'account': models.Account, 'currency': models.Currency, 'tag': models.Tag,
            'amount': models.Amount}


def py_value(k: str, v: int, asmodel: bool = False) -> Any:
    if k == 'none':
        return None
    plain = {'str': f'sv{v}', 'date': datetime.date(2001, 1, max(v, 1)), 'num': [D('1.5'), D('-2')][(v - 1) % 2], 'bool': v == 1}
    if k in plain:
        return MODEL_OF[k].from_value(plain[k]) if asmodel else plain[k]
    if k == 'null':
        return models.Null.from_default()
    if k == 'account':
        return models.Account.from_value(f'Assets:V{v}')
    if k == 'currency':
        return models.Currency.from_value(['AAA', 'BBB'][(v - 1) % 2])
    if k == 'tag':
        return models.Tag.from_value(f'tv{v}')
    return models.Amount.from_value(D(v), 'USD')


def render(k: str, v: int) -> str:
    if k == 'none':
        return ''
    x = py_value(k, v, asmodel=True)
    return tree.text_of(x)


def classify(value: Any) -> tuple[str, Any]:
    """(kind, comparable value) of what the property returns."""
    if value is None:
        return 'none', None
    if isinstance(value, bool):
        return 'bool', value
    if isinstance(value, str):
        return 'str', value
    if isinstance(value, datetime.date):
        return 'date', value
    if isinstance(value, D):
        return 'num', value
    for k, cls in MODEL_OF.items():
        if isinstance(value, cls):
            return k + '-model', tree.text_of(value)
    return type(value).__name__, repr(value)


def expected(k: str, v: int) -> tuple[str, Any]:
    if k in ('none', 'str', 'date', 'num', 'bool'):
        return classify(py_value(k, v))
    return k + '-model', render(k, v)


def locate(f: Any, path: tuple) -> tuple[Any, Any]:
    """(item, parent whose .meta holds it)"""
    d = list(f.raw_directives)[path[1]]
    if path[0] == 'p':
        parent = list(d.raw_postings)[path[2]]
        return list(parent.raw_meta)[path[4]], parent
    if len(path) == 2:
        return d, None
    return list(d.raw_meta)[path[3]], d


def siblings(item: Any, parent: Any) -> dict:
    out = {'key': item.key}
    for a in ('indent', 'inline_comment'):
        if hasattr(type(item), a):
            out[a] = getattr(item, a)
    if parent is not None:
        out['others'] = [(it.key, classify(it.value)) for it in parent.raw_meta if it is not item]
    return out


def replay(beh: list[dict], host: tuple, check: set[str]) -> tuple[list, int]:
    name, tmpl, path, has_map = host
    init = beh[0]
    text0 = tmpl.replace('{V}', (' ' + render(init['k'], init['v'])) if init['k'] != 'none' else '')
    f = tree.parse(text0)
    item, parent = locate(f, path)
    findings: list = []
    steps = 0

    def add(clause: str, ev: dict, prev: str, msg: str) -> None:
        findings.append((f'metavalue/{name}/{ev["route"]}/{prev}->{ev["k"]}{"(model)" if ev["asmodel"] else ""}/{clause}', clause, msg))

    if classify(item.value) != expected(init['k'], init['v']):
        raise RuntimeError(f'initial value of {name} reads {classify(item.value)}, expected {expected(init["k"], init["v"])}')
    prev_kind = init['k']
    for ev in beh[1:]:
        if ev['route'] == 'map' and not has_map:
            break
        steps += 1
        store = f.token_store
        before = list(store)
        before_text = ''.join(t.raw_text for t in before)
        sib0 = siblings(item, parent)
        old_child = item.raw_value
        old_child_tokens = {id(t) for t in old_child.tokens} if old_child is not None else set()
        old_r = tree.text_of(old_child) if old_child is not None else ''
        x = py_value(ev['k'], ev['v'], ev['asmodel'])
        try:
            with common.guard():
                if ev['route'] == 'attr':
                    item.value = x
                else:
                    parent.meta[item.key] = x
        except Exception as e:  # noqa: BLE001
            add('crash', ev, prev_kind, f'{type(e).__name__}: {e}')
            break
        now = list(store)
        text = ''.join(t.raw_text for t in now)
        if 'readback' in check:
            got = classify(item.value)
            want = expected(ev['k'], ev['v'])
            if got != want:
                add('readback', ev, prev_kind, f'value reads {got} after assigning {want}')
            if (item.raw_value is None) != (ev['k'] == 'none'):
                add('readback', ev, prev_kind, f'raw_value is {item.raw_value!r} after assigning kind {ev["k"]}')
            sib1 = siblings(item, parent)
            if sib1 != sib0:
                add('readback', ev, prev_kind, f'other properties changed: {sib0} -> {sib1}')
            if parent is not None and item.key in parent.meta and classify(parent.meta[item.key]) != expected(ev['k'], ev['v']):
                add('readback', ev, prev_kind, f'parent.meta[{item.key!r}] reads {classify(parent.meta[item.key])}')
        if 'frame' in check:
            # text: only what lies between 'kk:' and the rest of the line may change (the child and adjacent blanks)
            i = before_text.index('kk:') + 3
            m = re.match(r'[ \t]*', before_text[i:])
            j = i + m.end()
            if before_text[j:j + len(old_r)] != old_r:
                raise RuntimeError('harness: old child text not where expected')
            rest = before_text[j + len(old_r):]
            rest = rest[len(re.match(r'[ \t]*', rest).group(0)):]
            pat = re.escape(before_text[:i]) + r'[ \t]*' + re.escape(render(ev['k'], ev['v'])) + r'[ \t]*' + re.escape(rest)
            if not re.fullmatch(pat, text, flags=re.S):
                add('frame', ev, prev_kind, f'text outside the value changed: {before_text!r} -> {text!r}')
            new_child = item.raw_value
            new_tokens = {id(t) for t in new_child.tokens} if new_child is not None else set()
            keep0 = [t for t in before if id(t) not in old_child_tokens and not isinstance(t, models.Whitespace)]
            keep1 = [t for t in now if id(t) not in new_tokens and id(t) not in old_child_tokens and not isinstance(t, models.Whitespace)]
            if len(keep0) != len(keep1) or any(a is not b for a, b in zip(keep0, keep1)):
                add('frame', ev, prev_kind, 'tokens outside the value lost their identity or order')
        if 'reparse' in check:
            try:
                f2 = tree.parse(text)
                it2, _ = locate(f2, path)
                got2 = classify(it2.value)
                if got2 != expected(ev['k'], ev['v']) or it2.key != item.key:
                    add('reparse', ev, prev_kind, f'{text!r} re-parses to {got2}, the model says {expected(ev["k"], ev["v"])}')
                elif tree.content(f2) != tree.content(f):
                    add('reparse', ev, prev_kind, f'content differs after re-parse of {text!r}')
            except Exception as e:  # noqa: BLE001
                add('reparse', ev, prev_kind, f'printed text does not parse ({type(e).__name__}): {text!r}')
        if 'tree' in check:
            bad = tree.wellformed(f)
            if bad:
                add('tree', ev, prev_kind, '; '.join(bad[:3]))
        if findings:
            break
        prev_kind = ev['k']
    return findings, steps


def _chunk(arg: tuple) -> tuple[int, list]:
    check, items = arg
    from checks import store_replay
    out = []
    steps = 0
    for n, s in items:
        beh = json.loads(s)
        for hk, host in enumerate(HOSTS):
            store_replay.set_load_factor(store_replay.rot(n + hk))
            try:
                fnd, st = replay(beh, host, set(check))
            except Exception as e:  # noqa: BLE001
                where = common.raised_in_repo(e)
                out.append((f'metavalue/{host[0]}/unobservable' if where else 'machinery', 'unobservable' if where else 'machinery',
                            f'{type(e).__name__}: {e}' + (f' (raised in {where})' if where else ''), host[0], beh))
                continue
            steps += st
            for fp, clause, msg in fnd:
                out.append((fp, clause, msg, host[0], beh))
    store_replay.set_load_factor(1000)
    return steps, out


def run(rep: common.Reporter, tier: str, check: set[str]) -> dict:
    # depth 2 with everything; thorough adds depth 3 with one value per kind through the attribute route
    plans = [dict(Kinds=KINDS, Vals='1..2', Routes='{"attr", "map"}', InitKinds=KINDS, Depth='2')]
    if tier != 'quick':
        plans.append(dict(Kinds=KINDS, Vals='{1}', Routes='{"attr"}', InitKinds=KINDS, Depth='3'))
    behs: list[str] = []
    r = None
    states = transitions = 0
    for c in plans:
        r = tlc.run('MetaValue', c, invariants=['TypeOK', 'InPlaceKeepsKind'], constraints=['Emit'],
                    on_print=lambda p: behs.append(p[1]), timeout=3000)
        if not r.ok:
            rep.machinery_error(f'MetaValue TLC run failed: {r.violated} {r.tail[-800:]}')
            return {}
        states += r.distinct
        transitions += r.generated
    steps = 0
    with mp.Pool(16) as pool:
        for st, out in common.gmap(pool, rep, _chunk, [(sorted(check), ch) for ch in common.chunked(list(enumerate(behs)), 300)]):
            steps += st
            for fp, clause, msg, hname, beh in out:
                if clause == 'machinery':
                    rep.machinery_error(msg)
                elif clause in check or clause in ('crash', 'unobservable'):
                    rep.violation(fp, {'what': msg, 'host': hname, 'behaviour': beh})
    # sensitivity: with the in-place branch of the real setter made to swallow the new value, the replay must object
    from autobean_refactor.models import meta_value_internal as mvi
    orig = mvi.update_value
    mvi.update_value = lambda raw, value: orig(raw, value) or (raw is not None and value is None)     # None no longer clears
    try:
        beh = [{'route': 'init', 'k': 'str', 'v': 1, 'asmodel': False}, {'route': 'attr', 'k': 'none', 'v': 0, 'asmodel': False}]
        caught = bool(replay(beh, HOSTS[0], {'readback', 'reparse', 'frame', 'tree'})[0])
    finally:
        mvi.update_value = orig
    if not caught or replay(beh, HOSTS[0], {'readback', 'reparse', 'frame', 'tree'})[0]:
        rep.machinery_error('sensitivity: MetaValue replay did not tell the mutated setter from the real one')
    return {'states': states, 'transitions': transitions, 'behaviours': len(behs) * len(HOSTS), 'steps': steps,
            'sensitivity_mutated_setter_caught': caught,
            'hosts': [h[0] for h in HOSTS], 'sample': json.loads(behs[len(behs) // 2]) if behs else None}

"""C14, documented order: Layout.tla's Rule (leading of the model directly below at the same indentation,
else trailing of the model directly above, else standalone) against the real default attribution."""
from __future__ import annotations

import multiprocessing as mp
from typing import Any, Optional

from vlib import common, doclib, tree

common.import_repo()
from autobean_refactor import models  # noqa: E402
from autobean_refactor.models.internal.repeated import Repeated  # noqa: E402
from autobean_refactor.models.internal.surrounding_comments import SurroundingCommentsMixin  # noqa: E402

FLAVOR = 11      # single-line texts for every class (DIRS[11], TXNS[...]): line numbers = layout indices


def single_line_text(d: dict) -> Optional[str]:
    """Render with one physical line per layout line (no multi-line strings / comments)."""
    out = []
    for j, k in enumerate(d['lines'], 1):
        t = {'dir': '2000-01-01 open Assets:A', 'txn': '2000-01-01 * "p"', 'opt': 'option "a" "b"', 'head': '* heading',
             'meta': '    kk: 1', 'pmeta': '        pk: 2', 'post': '    Assets:A  1 USD', 'com': f'; c{j}',
             'icom': f'    ; c{j}', 'dcom': f'        ; c{j}', 'blank': '', 'ws': '  '}[k]
        out.append(t)
    return '\n'.join(out) + '\n'


def header_line(store: Any, m: Any) -> int:
    toks = [ch for _, ch in tree.children(m) if not isinstance(ch, models.BlockComment)]
    first = min((store.get_index(ch.first_token) for ch in toks))
    t = list(store)[first]
    return store.get_position(t).line + 1


def actual(f: Any) -> dict[int, tuple[str, int]]:
    """first line of every block comment token -> (kind, header line of the owner | 0)"""
    store = f.token_store
    out: dict[int, tuple[str, int]] = {}
    for p, m in tree.walk(f):
        if isinstance(m, SurroundingCommentsMixin):
            for kind, c in (('leading', m._leading_comment), ('trailing', m._trailing_comment)):
                if c is not None:
                    out[store.get_position(c).line + 1] = (kind, header_line(store, m))
        if isinstance(m, Repeated):
            for it in m.items:
                if isinstance(it, models.BlockComment):
                    out[store.get_position(it).line + 1] = ('standalone', 0)
    for t in store:
        if isinstance(t, models.BlockComment):
            out.setdefault(store.get_position(t).line + 1, ('unowned', 0))
    return out


def _chunk(docs: list) -> tuple[int, int, list]:
    out = []
    judged = skipped = 0
    for d in docs:
        if not d['rule']:
            continue
        text = single_line_text(d)
        try:
            f = tree.parse(text)
        except Exception:  # noqa: BLE001
            continue
        act = actual(f)
        for r in d['rule']:
            line, kind, owners = r['line'], r['kind'], r['owners']
            if kind == 'skip':
                skipped += 1
                continue
            judged += 1
            got = act.get(line)
            ok = got is not None and got[0] == kind and (kind == 'standalone' or got[1] in owners)
            if not ok:
                cls = 'other'
                if kind == 'trailing' and got == ('standalone', 0) and len(owners) == 1 \
                        and d['lines'][owners[0] - 1] in ('meta', 'pmeta'):
                    # a meta item directly under a transaction header (no posting in between)?
                    hdr = next((d['lines'][h] for h in range(owners[0] - 1, -1, -1) if d['lines'][h] in ('dir', 'txn', 'post')), '?')
                    if hdr == 'txn':
                        cls = 'txn-meta-trailing'
                out.append((cls, f'comment at line {line}: documented order gives {kind} of the model at line {owners}, '
                                 f'default parse gives {got}', text, d['lines']))
    return judged, skipped, out


def run(rep: common.Reporter, tier: str) -> dict:
    docs, r = doclib.layouts(max_lines=4 if tier == 'quick' else 5, accepted_only=True)
    docs = [d for d in docs if d['rule']]
    judged = skipped = 0
    with mp.Pool(16) as pool:
        for j, s, out in common.gmap(pool, rep, _chunk, list(common.chunked(docs, 300))):
            judged += j
            skipped += s
            for cls, msg, text, lines in out:
                rep.violation(f'C14/order/{cls}' if cls != 'other' else f'C14/order/{"-".join(lines)}',
                              {'what': msg, 'text': text})
    return {'states': r.distinct, 'transitions': r.generated, 'behaviours': len(docs), 'comments_judged': judged,
            'comment_groups_skipped_as_ambiguous': skipped}

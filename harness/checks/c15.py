"""C15: constructed models are well-formed and parse back to the same content (Construct.tla)."""
from __future__ import annotations

import copy
import datetime
import decimal
import inspect
import json
import multiprocessing as mp
import sys
from typing import Any, Optional

from vlib import common, tlc, tree

common.import_repo()
from autobean_refactor import models  # noqa: E402

D = datetime.date
Dc = decimal.Decimal
STRS = ['plain', 'with "quotes" and \\ backslash', 'multi\nline', '']
ABSENT = object()


def table(cname: str, pname: str, ann: str) -> Optional[list]:
    """Value selectors for a parameter (1-based in the specification)."""
    meta_key_classes = ('MetaItem', 'Pushmeta', 'Popmeta')
    if pname in ('account', 'source_account'):
        return ['Assets:A', 'Liabilities:Card-1:X']
    if pname == 'currency':
        return ['USD', 'AB.C']
    if pname == 'currencies':
        return [['USD', 'EUR'], [], ['USD'], ['A', 'BB', 'CCC'][1:] + ['USD']]
    if pname == 'date':
        return [D(2000, 1, 2), D(999, 12, 31), D(2024, 2, 29)]
    if pname == 'key' and cname in meta_key_classes:
        return ['kk', 'a-b_c']
    if pname in ('comment', 'description', 'filename', 'name', 'type', 'query_string', 'booking', 'config', 'label', 'key'):
        return list(STRS)
    if pname == 'value' and cname == 'Option':
        return list(STRS)
    if pname == 'value' and cname == 'NumberExpr':
        return [Dc('1.50'), Dc('-2'), Dc('0'), Dc('-0.00')]
    if pname == 'value':
        return ['str "q"', Dc('1.5'), Dc('-3'), D(2000, 1, 2), True, models.Account.from_value('Assets:A'),
                models.Amount.from_value(Dc(2), 'USD'), models.Currency.from_value('USD'), models.Tag.from_value('t')] + \
               ([None] if cname == 'MetaItem' else [])
    if pname in ('tag',):
        return ['tag', 'a-b/c.d']
    if pname in ('tags', 'links'):
        return [['one', 'a-b/c.d'], [], ['x'], ['x', 'y', 'z']]
    if pname == 'flag':
        return ['*', '!', 'P'] if cname == 'Transaction' else ['!', '*']   # ('txn' is a spelling of '*', not a value)
    if pname in ('number', 'tolerance', 'number_per', 'number_total'):
        return [Dc('1.50'), Dc('-2'), Dc('0'), Dc('0.0000001'), Dc('-0.00')] if pname != 'tolerance' else [Dc('0.1'), Dc('0')]
    if pname in ('payee', 'narration'):
        return ['p', 'with "q"', '']
    if pname in ('leading_comment', 'trailing_comment'):
        return ['c', 'two\nlines', '', 'blank\n \nline']
    if pname == 'inline_comment':
        return ['ic', '', ';; legacy']
    if pname in ('indent', 'indent_by'):
        return ['    ', '\t', '  ']
    if pname == 'merge':
        return [True, False]
    if pname == 'cost':
        return [lambda: models.CostSpec.from_value(Dc(2), None, 'EUR'), lambda: models.CostSpec.from_value(None, None, None),
                lambda: models.CostSpec.from_value(Dc(2), Dc(3), 'EUR', D(2000, 1, 1), 'lbl', True)]
    if pname == 'price':
        return [lambda: models.UnitPrice.from_value(Dc(3), 'CAD'), lambda: models.TotalPrice.from_value(Dc(3), 'CAD'),
                lambda: models.UnitPrice.from_value(None, None)]
    if pname == 'amount':
        return [lambda: models.Amount.from_value(Dc('1.5'), 'EUR')]
    if pname == 'postings':
        mk = lambda a, n=Dc(1): models.Posting.from_value(a, n, 'USD')
        return [lambda: [mk('Assets:A'), mk('Assets:B', Dc(-1))], lambda: [], lambda: [mk('Assets:A')],
                lambda: [models.Posting.from_value('Assets:A', None, None, meta={'pk': 'v'}, flag='!')]]
    if pname == 'directives':
        return [lambda: [models.Open.from_value(D(2000, 1, 1), 'Assets:A'), models.Close.from_value(D(2000, 1, 2), 'Assets:A')],
                lambda: [], lambda: [models.Option.from_value('k', 'v')]]
    if pname == 'values':
        return [['s', Dc(1)], [], [Dc(10), Dc(-2), Dc(-3)], [True, D(2000, 1, 2), 'x'], [Dc(1), Dc(2), Dc(-3), Dc(-4)], [Dc(10), Dc('-0.00')],
                [models.Account.from_value('Assets:A'), models.Amount.from_value(Dc(-1), 'USD'), Dc(-1)]]
    if pname == 'meta':
        return [{'kk': 'v'}, {}, {'kk': 'v "q"', 'zz': Dc('-1'), 'dd': D(2000, 1, 2), 'bb': True, 'nn': None}]
    return None


def schemas() -> dict[str, list[dict]]:
    out = {}
    for rule, cls in sorted(models.TREE_MODELS.items()):
        if not hasattr(cls, 'from_value'):
            continue
        ps = []
        ok = True
        for p in inspect.signature(cls.from_value).parameters.values():
            ann = str(p.annotation)
            tb = table(cls.__name__, p.name, ann)
            if tb is None:
                ok = False
                break
            optional = ann.startswith('typing.Optional') or 'Optional[' in ann[:20]
            islist = p.name in ('currencies', 'tags', 'links', 'postings', 'directives', 'values')
            has_default = p.default is not inspect._empty
            mode = 'list' if islist else ('opt' if optional or has_default else 'req')
            ps.append({'name': p.name, 'mode': mode, 'nsel': len(tb), 'optional_none': optional, 'has_default': has_default})
        if ok:
            out[cls.__name__] = ps
    return out


def tla_schemas(sc: dict) -> str:
    parts = []
    for c, ps in sc.items():
        inner = ', '.join(f'[name |-> "{p["name"]}", mode |-> "{p["mode"]}", nsel |-> {p["nsel"]}]' for p in ps)
        parts.append(f'{c} |-> <<{inner}>>')
    return '[' + ',\n '.join(parts) + ']'


def build_args(cname: str, ps: list[dict], sel: list[int]) -> dict:
    args = {}
    for p, s in zip(ps, sel):
        tb = table(cname, p['name'], '')
        if s == 0:
            if p['mode'] == 'list':
                args[p['name']] = []
            elif p['optional_none']:
                args[p['name']] = None
            # else: leave the default
            continue
        v = tb[s - 1]
        v = v() if callable(v) else copy.deepcopy(v)
        args[p['name']] = v
    return args


CLASSES = {c.__name__: c for c in models.TREE_MODELS.values()}


def norm(v: Any) -> Any:
    if isinstance(v, models.RawModel):
        return ('model', type(v).__name__, tree.text_of(v))
    if isinstance(v, (list, tuple)):
        return [norm(x) for x in v]
    return v


def check(cname: str, ps: list[dict], sel: list[int]) -> list[tuple[str, str]]:
    cls = CLASSES[cname]
    try:
        args = build_args(cname, ps, sel)
    except Exception as e:  # noqa: BLE001
        return [('machinery', f'building arguments: {type(e).__name__}: {e}')]
    shown = {k: norm(v) for k, v in args.items()}
    try:
        m = cls.from_value(**args)
    except ValueError as e:
        # documented rejections (e.g. cost with both numbers and no currency) are not constructions
        return []
    except Exception as e:  # noqa: BLE001
        return [('crash', f'{cname}.from_value({shown}) raised {type(e).__name__}: {e}')]
    out = []
    text = tree.text_of(m)
    bad = tree.wellformed(m, self_contained=True)
    if bad:
        out.append(('tree', f'{cname}.from_value({shown}): ' + '; '.join(bad[:2])))
    try:
        if not (m == copy.deepcopy(m)):
            out.append(('copy', f'{cname}.from_value({shown}) does not equal its deep copy'))
    except Exception as e:  # noqa: BLE001
        out.append(('copy', f'deepcopy of {cname}.from_value({shown}): {type(e).__name__}: {e}'))
    try:
        m2 = tree.parse(text, cls)
    except Exception as e:  # noqa: BLE001
        out.append(('parse', f'{cname}.from_value({shown}) prints {text!r}, which parse() rejects: {type(e).__name__}'))
        return out
    if tree.text_of(m2) != text:
        out.append(('parse', f'{text!r} parsed as {cname} prints {tree.text_of(m2)!r}'))
    if tree.content(m2) != tree.content(m):
        out.append(('content', f'{cname}.from_value({shown}) prints {text!r}; the parsed result has other fields/values'))
    # arguments are read back from the constructed model and from the parsed one
    for p in ps:
        name = p['name']
        if name not in args or name in ('indent_by', 'cost', 'price', 'amount', 'postings', 'directives', 'meta', 'indent', 'merge'):
            if name == 'meta' and args.get('meta') is not None and hasattr(m, 'meta'):
                for who, mm in (('constructed', m), ('parsed', m2)):
                    got = {k: v for k, v in mm.meta.items()}
                    want = args['meta']
                    if norm(list(got.items())) != norm(list(want.items())):
                        out.append(('readback', f'{who} {cname}: meta reads {norm(list(got.items()))}, argument was {norm(list(want.items()))}'))
            continue
        if not hasattr(cls, name):
            continue
        want = args[name]
        if cname == 'Transaction' and name == 'narration' and want is None and args.get('payee') is not None:
            want = ''       # payee implies narration
        for who, mm in (('constructed', m), ('parsed', m2)):
            try:
                got = getattr(mm, name)
                got = list(got) if hasattr(got, '__iter__') and not isinstance(got, str) else got
                if norm(got) != norm(want):
                    out.append(('readback', f'{who} {cname}.{name} reads {norm(got)!r}, argument was {norm(want)!r} (text {text!r})'))
            except Exception as e:  # noqa: BLE001
                out.append(('readback', f'{who} {cname}.{name}: {type(e).__name__}: {e}'))
    # assembled into a file
    if hasattr(models.File, 'from_value') and cname not in ('File',) and type(m).__name__ in _DIRECTIVES:
        try:
            f = models.File.from_value([m, models.Close.from_value(D(2001, 1, 1), 'Assets:Z')])
            t = tree.text_of(f)
            f2 = tree.parse(t)
            if tree.content(f2) != tree.content(f):
                out.append(('file', f'{cname} assembled into a file prints {t!r}; the parsed file has other content'))
            bad = tree.wellformed(f)
            if bad:
                out.append(('tree', f'file assembled from {cname}: ' + '; '.join(bad[:2])))
        except Exception as e:  # noqa: BLE001
            out.append(('file', f'{cname} assembled into a file: {type(e).__name__}: {str(e)[:200]}'))
    return out


_DIRECTIVES = {'Option', 'Include', 'Plugin', 'Pushtag', 'Poptag', 'Pushmeta', 'Popmeta', 'Balance', 'Close', 'Commodity', 'Pad',
               'Event', 'Query', 'Price', 'Note', 'Document', 'Open', 'Custom', 'Transaction'}
_SC: Optional[dict] = None


def _chunk(items: list) -> list:
    global _SC
    if _SC is None:
        _SC = schemas()
    out = []
    for s in items:
        b = json.loads(s)
        for kind, msg in check(b['cls'], _SC[b['cls']], b['sel']):
            out.append((kind, msg, b))
    return out


def main(prop: str, tier: str) -> int:
    rep = common.Reporter('C15', tier)
    sc = schemas()
    behs: list[str] = []
    fam = '{"subsets", "vary"}' if tier == 'quick' else '{"subsets", "vary", "pairs"}'
    r = tlc.run('Construct', {'Schemas': tla_schemas(sc), 'Families': fam}, invariants=['TypeOK'], constraints=['Emit'],
                on_print=lambda p: behs.append(p[1]), timeout=3000)
    if not r.ok:
        rep.machinery_error(f'Construct TLC run failed: {r.violated} {r.tail[-800:]}')
    # the same combination reached through several families is checked once
    behs = sorted({json.dumps({'cls': json.loads(b)['cls'], 'sel': json.loads(b)['sel']}) for b in behs})
    with mp.Pool(16) as pool:
        for out in common.gmap(pool, rep, _chunk, list(common.chunked(behs, 200))):
            for kind, msg, b in out:
                if kind == 'machinery':
                    rep.machinery_error(msg)
                else:
                    rep.violation(f'C15/{b["cls"]}/{kind}', {'what': msg, 'arguments': b})
    rep.cov.update({'states': r.distinct or 1, 'transitions': r.generated or 1, 'traces_validated_against_impl': len(behs),
                    'classes': len(sc), 'samples': [json.loads(behs[len(behs) // 2])] if behs else [], 'exhaustive': True,
                    'rule': 'per class: every subset of optional/list arguments, and every value selector of every argument with the others present'})
    rep.assumptions += ['value selectors per argument are representatives (strings needing escapes, negative / zero / tiny numbers, '
                        'early dates, multi-line comments, custom value runs needing disambiguation)']
    return rep.finish()


if __name__ == '__main__':
    sys.exit(main('C15', sys.argv[1] if len(sys.argv) > 1 else 'quick'))

"""C14 / C04: attribution calls on Layout.tla documents are recorded and validated by TLC against
CommentOwnership.tla (code -> spec); the documented order is compared with Comments.tla's Rule."""
from __future__ import annotations

import json
import multiprocessing as mp
import os
import random
import sys
import tempfile
from typing import Any, Optional

from vlib import common, doclib, tlc, tree

common.import_repo()
from autobean_refactor import models  # noqa: E402
from autobean_refactor.models import base  # noqa: E402
from autobean_refactor.models.internal.repeated import Repeated  # noqa: E402
from autobean_refactor.models.internal import interleaving_comments as ic  # noqa: E402
from autobean_refactor.models.internal.surrounding_comments import SurroundingCommentsMixin  # noqa: E402


class Doc:
    def __init__(self, text: str, default: bool) -> None:
        self.text = text
        self.default = default
        self.file = tree.parse(text, auto_claim_comments=default)
        self.nodes = [(p, m) for p, m in tree.walk(self.file)]
        self.ids = {id(m): k for k, (p, m) in enumerate(self.nodes)}
        self.comments = [t for t in self.file.token_store if isinstance(t, models.BlockComment)]
        self.cidx = {id(c): k for k, c in enumerate(self.comments)}
        self.mixins = [m for p, m in self.nodes if isinstance(m, SurroundingCommentsMixin)]
        self.wrappers: list[tuple[Any, Any]] = []     # (wrapper, Repeated)
        for p, m in self.nodes:
            if isinstance(m, base.RawTreeModel) and not isinstance(m, Repeated):
                for k in type(m).__mro__:
                    for a, v in vars(k).items():
                        if type(v).__name__ == 'repeated_node_with_interleaving_comments_property':
                            w = getattr(m, a)
                            if all(w is not x for x, _ in self.wrappers):
                                self.wrappers.append((w, w.repeated))
        self._txt: dict = {}

    def observe(self, txtids: dict) -> dict:
        own: list[list] = [[] for _ in self.comments]
        for p, m in tree.walk(self.file):
            if isinstance(m, SurroundingCommentsMixin):
                for kind, c in (('leading', m._leading_comment), ('trailing', m._trailing_comment)):
                    if c is not None and id(c) in self.cidx:
                        own[self.cidx[id(c)]].append([kind, self.ids.get(id(m), -1)])
            if isinstance(m, Repeated):
                for it in m.items:
                    if isinstance(it, models.BlockComment) and id(it) in self.cidx:
                        own[self.cidx[id(it)]].append(['inner', self.ids.get(id(m), -1)])
        toks = list(self.file.token_store)
        vis = tuple((id(t), t.raw_text) for t in toks if t.raw_text)
        text = ''.join(t.raw_text for t in toks)
        return {'own': own, 'claimed': [bool(c.claimed) for c in self.comments],
                'vis': txtids.setdefault(('v', vis), len(txtids) + 1), 'txt': txtids.setdefault(('t', text), len(txtids) + 1)}


def observe_copy(d: Doc, txtids: dict) -> dict:
    """A `copy` event: copy.deepcopy of the document in its current attribution state.  own / claimed describe
    the COPY (comments matched by ordinal among the block comments of the store, owners by parallel tree walk);
    vis / txt describe the ORIGINAL after the copy was taken (copying is not an edit)."""
    import copy as _copy
    ev: dict = {'op': 'copy', 'who': -1, 'root': False, 'second': False, 'default': d.default, 'snap': False, 'exc': ''}
    base_obs = d.observe(txtids)
    cp = _copy.deepcopy(d.file)
    on = list(tree.walk(d.file))
    cn = list(tree.walk(cp))
    oc = [t for t in d.file.token_store if isinstance(t, models.BlockComment)]
    cc = [t for t in cp.token_store if isinstance(t, models.BlockComment)]
    if len(on) != len(cn) or any(type(a[1]) is not type(b[1]) for a, b in zip(on, cn)) or len(oc) != len(cc) \
            or any(id(c) not in d.cidx for c in oc):
        return dict(ev, exc='copy-structure', **base_obs)
    ids = {id(b[1]): d.ids.get(id(a[1]), -1) for a, b in zip(on, cn)}
    cidx = {id(c2): d.cidx[id(c1)] for c1, c2 in zip(oc, cc)}
    own: list[list] = [[] for _ in d.comments]
    claimed = [False] * len(d.comments)
    for c2 in cc:
        claimed[cidx[id(c2)]] = bool(c2.claimed)
    for _, m in cn:
        if isinstance(m, SurroundingCommentsMixin):
            for kind, c in (('leading', m._leading_comment), ('trailing', m._trailing_comment)):
                if c is not None and id(c) in cidx:
                    own[cidx[id(c)]].append([kind, ids.get(id(m), -1)])
        if isinstance(m, Repeated):
            for it in m.items:
                if isinstance(it, models.BlockComment) and id(it) in cidx:
                    own[cidx[id(it)]].append(['inner', ids.get(id(m), -1)])
    return dict(ev, own=own, claimed=claimed, vis=base_obs['vis'], txt=base_obs['txt'])


def _copy_event(d: Doc, txtids: dict) -> Optional[dict]:
    try:
        with common.guard():
            return observe_copy(d, txtids)
    except Exception:  # noqa: BLE001
        return None          # deep copies are C11's business; here only their attribution is judged


def calls_for(d: Doc) -> list[tuple[str, int]]:
    out = []
    for k, m in enumerate(d.mixins):
        for op in ('claim_leading', 'unclaim_leading', 'claim_trailing', 'unclaim_trailing'):
            out.append((op, k))
    for k, _ in enumerate(d.wrappers):
        out += [('claim_inner', k), ('unclaim_inner', k), ('claim_inner_one', k), ('unclaim_inner_one', k),
                ('claim_inner_bad', k), ('unclaim_inner_bad', k)]
    autos = [k for k, (p, m) in enumerate(d.nodes) if isinstance(m, base.RawTreeModel) and not isinstance(m, Repeated)]
    out += [('auto', k) for k in autos[:6]]
    return out


def perform(d: Doc, call: tuple[str, int], txtids: dict, prev_auto: Optional[int]) -> dict:
    op, k = call
    ev: dict = {'op': op, 'who': -1, 'root': False, 'second': False, 'default': d.default, 'snap': False, 'exc': ''}
    try:
      with common.guard():
          if op in ('claim_leading', 'unclaim_leading', 'claim_trailing', 'unclaim_trailing'):
              m = d.mixins[k]
              ev['who'] = d.ids[id(m)]
              getattr(m, op + '_comment')()
          elif op in ('claim_inner', 'unclaim_inner', 'claim_inner_one', 'unclaim_inner_one', 'claim_inner_bad', 'unclaim_inner_bad'):
              w, rep = d.wrappers[k]
              ev['who'] = d.ids.get(id(rep), -1)
              if op == 'claim_inner':
                  w.claim_interleaving_comments()
              elif op == 'unclaim_inner':
                  w.unclaim_interleaving_comments()
              elif op == 'claim_inner_one':
                  ev['op'] = 'claim_inner'
                  free = [c for c in d.comments if not c.claimed]
                  w.claim_interleaving_comments(free[:1])
              elif op == 'claim_inner_bad':
                  # a request that cannot be satisfied as a whole (one comment is not there): must be refused,
                  # and the comments that WERE found must stay exactly as they were
                  ev['op'] = 'claim_inner'
                  free = [c for c in d.comments if not c.claimed]
                  w.claim_interleaving_comments(free[:1] + [models.BlockComment.from_value('not in this document')])
              elif op == 'unclaim_inner_bad':
                  ev['op'] = 'unclaim_inner'
                  mine = [it for it in rep.items if isinstance(it, models.BlockComment)]
                  w.unclaim_interleaving_comments(mine[:1] + [models.BlockComment.from_value('not in this document')])
              else:
                  ev['op'] = 'unclaim_inner'
                  mine = [it for it in rep.items if isinstance(it, models.BlockComment)]
                  w.unclaim_interleaving_comments(mine[:1])
          elif op == 'auto':
              m = d.nodes[k][1]
              ev['who'] = k
              ev['root'] = m is d.file
              ev['second'] = prev_auto == k
              m.auto_claim_comments()
    except ValueError:
        ev['exc'] = 'ValueError'
    except Exception as e:  # noqa: BLE001
        ev['exc'] = type(e).__name__
    ev.update(d.observe(txtids))
    return ev


def record(text: str, default: bool, plan: list[tuple[str, int]], txtids: dict, restore: bool = True,
           lf: Optional[int] = None) -> Optional[dict]:
    if lf is not None:
        from checks import store_replay
        store_replay.set_load_factor(lf)      # the parse below lays the store out in blocks of this size
    try:
        d = Doc(text, default)
    except Exception:  # noqa: BLE001
        return None
    events = [dict({'op': 'init', 'who': -1, 'root': False, 'second': False, 'default': default, 'snap': False, 'exc': ''},
                   **d.observe(txtids))]
    prev_auto = None
    if not default:
        cev = _copy_event(d, txtids)
        if cev is not None:
            events.append(cev)
            events.append(dict(events[0], op='resume'))
    for call in plan:
        op, k = call
        if (op.endswith('leading') or op.endswith('trailing')) and k >= len(d.mixins):
            continue
        if 'inner' in op and k >= len(d.wrappers):
            continue
        if op == 'auto' and k >= len(d.nodes):
            continue
        if op == 'auto' and not (isinstance(d.nodes[k][1], base.RawTreeModel) and not isinstance(d.nodes[k][1], Repeated)):
            continue
        before = events[-1]
        ev = perform(d, call, txtids, prev_auto)
        prev_auto = k if op == 'auto' else None
        events.append(ev)
        if ev['own'] != before['own'] and not ev['exc']:
            # a deep copy taken in this attribution state carries the same attribution
            cev = _copy_event(d, txtids)
            if cev is not None and cev['own'] is not None:
                events.append(cev)
                events.append(dict(ev, op='resume', exc=''))     # back to the original's own observation
        if restore and op in ('unclaim_leading', 'unclaim_trailing', 'unclaim_inner') and not ev['exc'] \
                and ev['own'] != before['own']:
            # unclaim followed by the same claim restores the attribution
            ev['snap'] = True
            if op == 'unclaim_inner':
                # claim exactly the comments the unclaim released
                released = [d.comments[c] for c in range(len(d.comments)) if ev['own'][c] != before['own'][c]]
                w, rep = d.wrappers[k]
                ev2 = {'op': 'claim_inner', 'who': d.ids.get(id(rep), -1), 'root': False, 'second': False,
                       'default': d.default, 'snap': False, 'exc': ''}
                try:
                    w.claim_interleaving_comments(released)
                except ValueError:
                    ev2['exc'] = 'ValueError'
                ev2.update(d.observe(txtids))
            else:
                ev2 = perform(d, (op[2:], k), txtids, None)
            events.append(ev2)
            events.append(dict(ev2, op='restore', exc=''))
    return {'ncomments': len(d.comments), 'text': text, 'default': default, 'events': events}


def pingpong_plans(text: str, default: bool, d0: Doc, calls: list) -> list:
    """For every comment: the claim calls that can take it when it is unowned, and the sequences
    release-all, claim x, unclaim x, claim y, unclaim y, claim x over those candidates - a comment
    handed back and forth between its possible owners (placeholders get moved every time)."""
    release = [(op, k) for op, k in calls if op in ('unclaim_leading', 'unclaim_trailing', 'unclaim_inner')]
    claims = [(op, k) for op, k in calls if op in ('claim_leading', 'claim_trailing', 'claim_inner')]
    cands: dict[int, list] = {}
    for call in claims:
        try:
            d = Doc(text, default)
            for r in release:
                perform(d, r, {}, None)
            before = d.observe({})['own']
            ev = perform(d, call, {}, None)
            for c in range(len(d.comments)):
                if ev['own'][c] != before[c] and ev['own'][c]:
                    cands.setdefault(c, []).append(call)
        except Exception:  # noqa: BLE001
            continue
    plans = []
    for c, cs in cands.items():
        for x in cs:
            for y in cs:
                if x == y:
                    continue
                ux, uy = ('un' + x[0], x[1]), ('un' + y[0], y[1])
                plans.append(release + [x, ux, y, uy, x, ux])
    return plans[:40]


# block sizes of the token store under the documents: every document meets every size with some of its plans, so
# that the placeholder moves of the attribution calls land on, before and behind block boundaries and make blocks
# split and merge (1000 = the shipped size: one block)
LFS = [2, 3, 1000, 4, 5, 7, (4, 'bs'), (2, 'bs'), (6, 'sb'), (3, 'bs')]


def _chunk(arg: tuple) -> list:
    seed, flavors, docs, depth2 = arg
    rng = random.Random(seed)
    txtids: dict = {}
    traces = []
    from checks import store_replay
    for dk, dd in enumerate(docs):
        store_replay.set_load_factor(store_replay.rot(dk))      # placeholder moves straddle block boundaries
        for fl in flavors:
            text = doclib.render(dd, fl)
            for default in (True, False):
                try:
                    d0 = Doc(text, default)
                except Exception:  # noqa: BLE001
                    continue
                if not d0.comments:
                    continue
                calls = calls_for(d0)
                # block sizes that leave an undersized block in this very document (the store halves a remainder of
                # L+1 tokens into L/2 and L/2+1: the first half is at the merge threshold, as 500 of 1000 is in a
                # ledger of 1000k+1 tokens), so that a placeholder moved inside it makes the store merge blocks
                ntok = len(d0.file.token_store)
                special = [L for L in range(4, ntok, 2) if (ntok - 1) % L == 0]
                lfs = LFS + special[:2] + special[-1:]
                pp = pingpong_plans(text, default, d0, calls)
                for pi, plan in enumerate(pp):
                    tr = record(text, default, plan, txtids, restore=False, lf=lfs[(dk + pi) % len(lfs)])
                    if tr is not None:
                        traces.append(tr)
                if depth2 < 0:
                    plans = []
                else:
                    plans = [[c] for c in calls] + [[c, c] for c in calls if c[0] == 'auto']
                    for _ in range(depth2):
                        plans.append([rng.choice(calls) for _ in range(rng.choice([2, 3, 4]))])
                # parse(default) must equal parse(off) followed by auto-claim: compared in Python below
                for pi, plan in enumerate(plans):
                    tr = record(text, default, plan, txtids, lf=lfs[(dk + pi) % len(lfs)])
                    if tr is not None:
                        traces.append(tr)
    store_replay.set_load_factor(1000)
    return traces


def later_equals_parse(text: str) -> Optional[str]:
    """parse(default) gives the same attribution as parse(off) + auto_claim_comments() later."""
    try:
        a = Doc(text, True)
        b = Doc(text, False)
    except Exception:  # noqa: BLE001
        return None
    b.file.auto_claim_comments()
    for d in (a, b):       # name owners by their position in the final tree
        d.nodes = [(p, m) for p, m in tree.walk(d.file)]
        d.ids = {id(m): k for k, (p, m) in enumerate(d.nodes)}
    ta, tb = {}, {}
    oa, ob = a.observe(ta), b.observe(tb)
    if oa['own'] != ob['own'] or oa['claimed'] != ob['claimed']:
        return f'parse(default) attributes {oa["own"]}, parse(off)+auto_claim attributes {ob["own"]}'
    return None


def validate(traces: list[dict], timeout: float = 1800) -> dict:
    out: dict = {'accepted': 0, 'rejected': [], 'states': 0, 'transitions': 0, 'errors': []}
    for start in range(0, len(traces), 3000):
        part = traces[start:start + 3000]
        fd, path = tempfile.mkstemp(prefix='verif_ctraces_', suffix='.json')
        try:
            with os.fdopen(fd, 'w') as f:
                json.dump([{'ncomments': t['ncomments'], 'events': t['events']} for t in part], f)
            verdicts: dict = {}
            r = tlc.run('CommentOwnership', {}, init='TInit', next='TNext', constraints=['Report'], workers=1,
                        env={'TRACE_FILE': path}, timeout=timeout, print_prefixes=('VERDICT',),
                        on_print=lambda p: verdicts.__setitem__(p[1], (p[2], p[3], p[4])))
            out['states'] += r.distinct
            out['transitions'] += r.generated
            if not r.ok:
                out['errors'].append(r.violated or r.tail[-600:])
            for k in range(1, len(part) + 1):
                v = verdicts.get(k)
                if v is None:
                    out['errors'].append('missing verdict')
                elif v[0] == 'accepted':
                    out['accepted'] += 1
                else:
                    out['rejected'].append((start + k - 1, v[1], v[2]))
        finally:
            os.unlink(path)
    return out


C04_CLAUSES = {'visible-tokens-changed', 'text-changed'}


def run(rep: common.Reporter, tier: str, prop: str) -> dict:
    seed = common.seed()
    docs, r = doclib.layouts(max_lines=3 if tier == 'quick' else 4, accepted_only=True)
    docs = [d for d in docs if any(k in ('com', 'icom', 'dcom') for k in d['lines'])]
    nmax = 4 if tier == 'quick' else 5
    docs_pp, _ = doclib.layouts(max_lines=nmax, accepted_only=True)
    docs_pp = [d for d in docs_pp if len(d['lines']) == nmax and any(k in ('com', 'icom', 'dcom') for k in d['lines'])
               and sum(1 for k in d['lines'] if k in ('dir', 'txn', 'meta', 'post', 'pmeta', 'opt', 'head')) >= 2]
    if prop == 'C19':
        docs = [d for d in docs if len(d['lines']) <= 3][:400]
        docs_pp = []
    elif tier == 'quick':
        rng = random.Random(seed)
        docs = docs + rng.sample(docs_pp, min(300, len(docs_pp)))
    flavors = [seed % 12]
    traces: list = []
    with mp.Pool(16) as pool:
        jobs = [(seed + j, flavors, ch, 2 if tier == 'quick' else 6) for j, ch in enumerate(common.chunked(docs, 10))]
        jobs += [(seed + j, flavors, ch, -1) for j, ch in enumerate(common.chunked(docs_pp, 40))]   # ping-pong plans only
        for tr in common.gmap(pool, rep, _chunk, jobs):
            traces.extend(tr)
    tv = validate(traces)
    for e in tv['errors']:
        rep.machinery_error(f'CommentOwnership trace validation: {e}')
    for ti, step, clause in tv['rejected']:
        is04 = clause in C04_CLAUSES
        ev = traces[ti]['events'][step - 1] if step else {}
        if prop == 'C19':
            if not ev.get('exc'):
                continue        # C19 only judges refused calls (comments that cannot be found / already claimed)
        elif (prop == 'C04') != is04:
            continue
        if True:
            rep.violation(f'{prop}/comments/{clause}/{ev.get("op", "?")}',
                          {'what': f'recorded attribution calls rejected by CommentOwnership at event {step}: {clause}',
                           'text': traces[ti]['text'], 'default_parse': traces[ti]['default'],
                           'events': [(e['op'], e['who'], e['exc'], e['own']) for e in traces[ti]['events'][:step]]})
    later = 0
    if prop == 'C14':
        for dd in docs:
            msg = later_equals_parse(doclib.render(dd, flavors[0]))
            later += 1
            if msg:
                rep.violation('C14/parse-vs-later', {'what': msg, 'text': doclib.render(dd, flavors[0])})
    # sensitivity: corrupt one trace (a comment gets two owners)
    sens = {}
    vict = [t for t in traces if t['ncomments'] and len(t['events']) >= 2][:5]
    if vict:
        c = json.loads(json.dumps(vict))
        for t in c:
            t['events'][-1]['own'][0] = [['leading', 1], ['inner', 2]]
        cv = validate(c)
        sens['two_owner_traces_rejected'] = f'{len(cv["rejected"])}/{len(c)}'
        if len(cv['rejected']) != len(c):
            rep.machinery_error('sensitivity: a trace with a doubly owned comment was accepted')
    return {'states': tv['states'] + r.distinct, 'transitions': tv['transitions'] + r.generated,
            'behaviours': tv['accepted'] + len(tv['rejected']), 'documents': len(docs), 'parse_vs_later_checked': later,
            'sensitivity': sens, 'sample': {'text': traces[0]['text'], 'events': traces[0]['events'][:3]} if traces else None}

"""C05, further edit kinds: spacing assignments and comment attribution sequences, with Tree!WellFormed
evaluated on the real tree after every call (and a follow-up edit through a neighbour)."""
from __future__ import annotations

import multiprocessing as mp
import random
from typing import Any

from vlib import common, doclib, tree
from checks import comments, c17


def _claims_chunk(arg: tuple) -> tuple[int, list]:
    flavors, docs = arg
    out = []
    calls_done = 0
    for d in docs:
        for fl in flavors:
            text = doclib.render(d, fl)
            for default in (True, False):
                try:
                    d0 = comments.Doc(text, default)
                except Exception:  # noqa: BLE001
                    continue
                if not d0.comments:
                    continue
                calls = comments.calls_for(d0)
                plans = [[c] for c in calls] + comments.pingpong_plans(text, default, d0, calls)
                for plan in plans:
                    dd = comments.Doc(text, default)
                    for call in plan:
                        op, k = call
                        if (op.endswith('leading') or op.endswith('trailing')) and k >= len(dd.mixins):
                            continue
                        if 'inner' in op and k >= len(dd.wrappers):
                            continue
                        if op == 'auto' and k >= len(dd.nodes):
                            continue
                        try:
                            comments.perform(dd, call, {}, None)
                        except Exception:  # noqa: BLE001
                            break
                        calls_done += 1
                        bad = tree.wellformed(dd.file)
                        if bad:
                            out.append((f'after {call[0]}: ' + '; '.join(bad[:2]), text, plan))
                            break
    return calls_done, out


def run(rep: common.Reporter, tier: str) -> dict:
    seed = common.seed()
    p17 = c17.run(rep, tier, prop='C05')
    docs, r = doclib.layouts(max_lines=3 if tier == 'quick' else 4, accepted_only=True)
    docs = [d for d in docs if any(k in ('com', 'icom', 'dcom') for k in d['lines'])]
    if tier == 'quick':
        d4, _ = doclib.layouts(max_lines=4, accepted_only=True)
        d4 = [d for d in d4 if len(d['lines']) == 4 and any(k in ('com', 'icom', 'dcom') for k in d['lines'])]
        docs += random.Random(seed).sample(d4, min(len(d4), 400))
    ncalls = 0
    with mp.Pool(16) as pool:
        for n, out in common.gmap(pool, rep, _claims_chunk, [([seed % 12], ch) for ch in common.chunked(docs, 20)]):
            ncalls += n
            for msg, text, plan in out:
                rep.violation('C05/claims/tree', {'what': msg, 'text': text, 'calls': plan})
    return {'states': p17['states'] + r.distinct, 'transitions': p17['transitions'] + r.generated,
            'behaviours': p17['behaviours'] + len(docs), 'spacing_traces': p17['behaviours'], 'attribution_calls': ncalls,
            'sample': None}

"""RepImpl.tla: TLC design check of the repeated-field algorithms (token placement, view index arithmetic)
against the canonical rendering and the recomputed filters, plus the three repaired deviations as
counterexamples (sensitivity)."""
from __future__ import annotations

import datetime
import json
import multiprocessing as mp
from typing import Any

from vlib import common, tlc, tree

INVS = ['DocOK', 'ViewsOK', 'NoDup']
ALL = '{"NegIndex", "RevSlice", "BatchAt0"}'


def consts(depth: int, lens: str, idx: str, steps: str, batch: int, fixes: str = ALL) -> dict:
    return dict(Types='{"A","B"}', ViewTypes='[va |-> {"A"}, vb |-> {"B"}, vall |-> {"A","B"}]', InitLens=lens, MaxLen='5',
                MaxBatch=str(batch), IdxDom=idx, StepDom=steps, Depth=str(depth), Fixes=fixes)


def run(rep: common.Reporter, tier: str) -> dict:
    runs = [('depth1-all-spellings', consts(1, '0..3', '-4..4', '{NoneV, 1, 2, -1, -2}', 2))]
    if tier == 'quick':
        runs.append(('depth2-reduced', consts(2, '{0,2}', '{-1,0,1}', '{NoneV, -1}', 1)))
    else:
        runs.append(('depth2', consts(2, '0..2', '{-2,-1,0,1}', '{NoneV, 2, -1}', 2)))
        runs.append(('depth3-reduced', consts(3, '{1}', '{-1,0}', '{NoneV}', 1)))
    out = {'states': 0, 'transitions': 0, 'runs': [], 'behaviours': 0}
    for name, c in runs:
        r = tlc.run('RepImpl', c, invariants=INVS, view='DesignView', timeout=3000)
        out['runs'].append({'config': name, 'distinct': r.distinct, 'generated': r.generated, 'ok': r.ok, 'wall_s': round(r.wall_s, 1)})
        out['states'] += r.distinct
        out['transitions'] += r.generated
        if not r.ok:
            rep.machinery_error(f'RepImpl design check {name} failed: {r.violated}\n{r.tail[-1500:]}')
    sens = {}
    for dev in ('NegIndex', 'RevSlice', 'BatchAt0'):
        fixes = '{' + ', '.join(f'"{d}"' for d in ('NegIndex', 'RevSlice', 'BatchAt0') if d != dev) + '}'
        r = tlc.run('RepImpl', consts(1, '0..2', '-3..3', '{NoneV, 1}', 2, fixes), invariants=INVS, view='DesignView', timeout=600)
        sens[f'without_{dev}'] = r.violated
        if r.ok:
            rep.machinery_error(f'sensitivity: RepImpl without the {dev} repair was not rejected by TLC')
    out['sensitivity'] = sens
    return out


# ---------------------------------------------------------------------------------------------------------
# Binding: RepImpl behaviours replayed on the real wrappers.  Spec variable -> code:
#   items   -> list(File.raw_directives_with_comments)            (identity and type of every element)
#   rawIdx  -> RepeatedFilteredNodeWrapper._raw_indexes of every registered view (private; read if present)
#   and, through the public API only, list(view) of every registered view = the type filter of the raw list.
D = datetime.date(2000, 1, 1)
VIEW_TYPES = {'va': ('A',), 'vb': ('B',), 'vall': ('A', 'B')}


def _sl(t: list) -> slice:
    return slice(*[None if x == 99 else x for x in t])       # PySeq!NoneV


def replay_one(beh: list[dict], lf: int) -> list[tuple[str, str]]:
    common.import_repo()
    from autobean_refactor import models
    from autobean_refactor.models import internal
    from checks import store_replay
    store_replay.set_load_factor(lf)
    cls = {'A': models.Open, 'B': models.Close}

    def make(ty: str, k: int) -> Any:
        return cls[ty].from_value(D, f'Assets:{ty}{k}')

    init = beh[0]
    text = '\n'.join(f'2000-01-01 {"open" if ty == "A" else "close"} Assets:{ty}{k}' for k, ty in init['items'])
    f = tree.parse(text + ('\n' if text else ''))
    raw = f.raw_directives_with_comments
    objs = {k: o for (k, ty), o in zip(init['items'], list(raw))}
    ids = {id(o): k for k, o in objs.items()}
    if len(objs) != len(init['items']):
        raise RuntimeError('initial document does not have the expected directives')
    views: dict[str, Any] = {}
    out: list[tuple[str, str]] = []
    for step, ev in enumerate(beh[1:], 1):
        op, a = ev['op'], ev['args']
        known = set(ids.values())
        new = sorted((k, ty) for k, ty in ev['items'] if k not in known)      # NewItems(b): ids in batch order
        batch = [make(ty, k) for k, ty in new]
        try:
            with common.guard():
                if op == 'register':
                    views[a['v']] = internal.RepeatedFilteredNodeWrapper(raw, tuple(cls[t] for t in VIEW_TYPES[a['v']]))
                elif op == 'insert':
                    raw.insert(a['i'], batch[0])
                elif op == 'extend':
                    raw.extend(batch)
                elif op == 'setitem':
                    raw[a['i']] = batch[0]
                elif op == 'setslice':
                    raw[_sl(a['sl'])] = batch
                elif op == 'pop':
                    raw.pop(a['i'])
                elif op == 'clear':
                    raw.clear()
                elif op == 'dropmany':
                    raw.drop_many(list(a['s']))
                else:
                    raise RuntimeError(op)
        except common.Runaway:
            raise
        except Exception as e:  # noqa: BLE001
            out.append((f'repimpl/{op}/exc', f'step {step} {op} {a}: {type(e).__name__}: {e}'))
            break
        for (k, ty), o in zip(new, batch):
            objs[k] = o
            ids[id(o)] = k
        real = list(raw)
        got = [(ids.get(id(o), '?'), 'A' if isinstance(o, models.Open) else 'B' if isinstance(o, models.Close) else '?') for o in real]
        want = [tuple(x) for x in ev['items']]
        if got != want:
            out.append((f'repimpl/{op}/items', f'step {step} {op} {a}: raw list is {got}, specification {want}'))
            break
        bad = False
        idx = ev['idx'] if isinstance(ev['idx'], dict) else {}
        for v, w in views.items():
            spec_idx = list(idx.get(v, []))
            exp = [real[i] for i in spec_idx] if all(0 <= i < len(real) for i in spec_idx) else None
            lst = list(w)
            filt = [o for o in real if isinstance(o, tuple(cls[t] for t in VIEW_TYPES[v]))]
            if len(lst) != len(filt) or any(x is not y for x, y in zip(lst, filt)):
                out.append((f'repimpl/{op}/view', f'step {step} {op} {a}: view {v} shows {[ids.get(id(o)) for o in lst]}, '
                                                  f'the raw list filtered is {[ids.get(id(o)) for o in filt]}'))
                bad = True
            ri = getattr(w, '_raw_indexes', None)
            if ri is not None and list(ri) != spec_idx:
                out.append((f'repimpl/{op}/rawidx', f'step {step} {op} {a}: {v}._raw_indexes = {list(ri)}, specification rawIdx = {spec_idx}'))
                bad = True
        if bad:
            break
    store_replay.set_load_factor(1000)
    return out


def _bind_chunk(items: list) -> tuple[int, list]:
    out = []
    steps = 0
    for k, s in items:
        beh = json.loads(s)
        steps += len(beh) - 1
        for fp, msg in replay_one(beh, [1000, 2, 3, 4][k % 4]):
            out.append((fp, msg, beh))
    return steps, out


def bind(rep: common.Reporter, tier: str) -> dict:
    plans = [('depth1', consts(1, '0..3', '-4..4', '{NoneV, 2, -1}', 2))]
    if tier == 'quick':
        plans.append(('depth2-reduced', consts(2, '{2}', '{-1,1}', '{NoneV}', 1)))
    else:
        plans.append(('depth2', consts(2, '{1,2,3}', '{-1,1}', '{NoneV}', 1)))
        plans.append(('depth2-steps', consts(2, '{3}', '{0}', '{2, -1}', 1)))
    res = {'states': 0, 'transitions': 0, 'behaviours': 0, 'steps': 0, 'runs': []}
    with mp.Pool(16) as pool:
        for name, c in plans:
            behs: list[str] = []
            r = tlc.run('RepImpl', c, invariants=INVS, constraints=['RegCanon', 'Emit'], on_print=lambda p: behs.append(p[1]), timeout=3000)
            if not r.ok:
                rep.machinery_error(f'RepImpl behaviour run {name} failed: {r.violated}\n{r.tail[-800:]}')
                continue
            behs = sorted(set(behs))
            res['states'] += r.distinct
            res['transitions'] += r.generated
            res['behaviours'] += len(behs)
            res['runs'].append({'config': name, 'behaviours': len(behs), 'tlc_states': r.distinct, 'wall_s': round(r.wall_s, 1)})
            for st, out in common.gmap(pool, rep, _bind_chunk, list(common.chunked(list(enumerate(behs)), 400))):
                res['steps'] += st
                for fp, msg, beh in out:
                    rep.violation(fp, {'what': msg, 'behaviour': beh})
    # sensitivity: the unrepaired index arithmetic, put back into the real handler, must be caught
    res['sensitivity'] = _sensitivity(rep)
    return res


def _sensitivity(rep: common.Reporter) -> dict:
    common.import_repo()
    from autobean_refactor.models.internal import value_properties as vp
    orig = vp._RepeatedValueWrapperUpdateHandler.handle_splice

    def broken(self, l, r, values):  # noqa: ANN001, E741
        return orig(self, l, r + 1 if r > l else r, values)       # an off-by-one in the notified range
    vp._RepeatedValueWrapperUpdateHandler.handle_splice = broken
    try:
        beh = [{'op': 'init', 'args': {}, 'items': [[1, 'A'], [2, 'B'], [3, 'A']], 'idx': [], 'reg': {}, 'doc': []},
               {'op': 'register', 'args': {'v': 'va'}, 'items': [[1, 'A'], [2, 'B'], [3, 'A']], 'idx': {'va': [0, 2]}},
               {'op': 'pop', 'args': {'i': 0}, 'items': [[2, 'B'], [3, 'A']], 'idx': {'va': [1]}}]
        f = replay_one(beh, 1000)
    finally:
        vp._RepeatedValueWrapperUpdateHandler.handle_splice = orig
    ok = replay_one(beh, 1000)
    if not f or ok:
        rep.machinery_error(f'sensitivity: RepImpl binding: mutant findings {f}, clean findings {ok}')
    return {'off_by_one_in_handle_splice_caught': bool(f), 'clean_replay_findings': len(ok)}

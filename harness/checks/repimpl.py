"""RepImpl.tla: TLC design check of the repeated-field algorithms (token placement, view index arithmetic)
against the canonical rendering and the recomputed filters, plus the three repaired deviations as
counterexamples (sensitivity)."""
from __future__ import annotations

from vlib import common, tlc

INVS = ['DocOK', 'ViewsOK', 'NoDup']
ALL = '{"NegIndex", "RevSlice", "BatchAt0"}'


def consts(depth: int, lens: str, idx: str, steps: str, batch: int, fixes: str = ALL) -> dict:
    return dict(Types='{"A","B"}', ViewTypes='[va |-> {"A"}, vb |-> {"B"}, vall |-> {"A","B"}]', InitLens=lens, MaxLen='5',
                MaxBatch=str(batch), IdxDom=idx, StepDom=steps, Depth=str(depth), Fixes=fixes)


def run(rep: common.Reporter, tier: str) -> dict:
    runs = [('depth1-all-spellings', consts(1, '0..3', '-4..4', '{NoneV, 1, 2, -1, -2}', 2))]
    if tier == 'quick':
        runs.append(('depth2-reduced', consts(2, '{0,2}', '{-1,0,1}', '{NoneV, -1}', 1)))
    else:
        runs.append(('depth2', consts(2, '0..2', '{-2,-1,0,1}', '{NoneV, 2, -1}', 2)))
        runs.append(('depth3-reduced', consts(3, '{1}', '{-1,0}', '{NoneV}', 1)))
    out = {'states': 0, 'transitions': 0, 'runs': [], 'behaviours': 0}
    for name, c in runs:
        r = tlc.run('RepImpl', c, invariants=INVS, timeout=3000)
        out['runs'].append({'config': name, 'distinct': r.distinct, 'generated': r.generated, 'ok': r.ok, 'wall_s': round(r.wall_s, 1)})
        out['states'] += r.distinct
        out['transitions'] += r.generated
        if not r.ok:
            rep.machinery_error(f'RepImpl design check {name} failed: {r.violated}\n{r.tail[-1500:]}')
    sens = {}
    for dev in ('NegIndex', 'RevSlice', 'BatchAt0'):
        fixes = '{' + ', '.join(f'"{d}"' for d in ('NegIndex', 'RevSlice', 'BatchAt0') if d != dev) + '}'
        r = tlc.run('RepImpl', consts(1, '0..2', '-3..3', '{NoneV, 1}', 2, fixes), invariants=INVS, timeout=600)
        sens[f'without_{dev}'] = r.violated
        if r.ok:
            rep.machinery_error(f'sensitivity: RepImpl without the {dev} repair was not rejected by TLC')
    out['sensitivity'] = sens
    return out

"""C11 (deep copies) and C20 (equality) - recorded executions validated by TLC against Docs.tla."""
from __future__ import annotations

import copy
import itertools
import json
import multiprocessing as mp
import os
import sys
import tempfile
from typing import Any, Optional

from vlib import common, doclib, tlc, tree

common.import_repo()
from autobean_refactor import models  # noqa: E402
from autobean_refactor.models import base  # noqa: E402
from autobean_refactor.models.internal.repeated import Repeated  # noqa: E402
from autobean_refactor.models.internal.placeholder import Placeholder  # noqa: E402


def shape(m: Any) -> Any:
    """Tree structure: classes, which slots are filled, list lengths and item kinds, comment ownership."""
    if m is None:
        return None
    if isinstance(m, base.RawTokenModel):
        return (m.RULE,)
    if isinstance(m, Repeated):
        return ('Repeated', tuple(shape(i) for i in m.items))
    out = [type(m).__name__]
    for name, d in tree.field_descriptors(type(m)):
        out.append((name, shape(d.__get__(m))))
    ops = getattr(m, '_raw_operands', None)
    if ops is not None:
        out.append(tuple(shape(o) for o in ops))
        out.append(tuple(shape(o) for o in getattr(m, '_raw_ops', ())))
    return tuple(out)


class Rec:
    def __init__(self) -> None:
        self.tok: dict[int, int] = {}
        self.txt: dict[str, int] = {}
        self.keep: list = []
        self.stores: list = []
        self.events: list = []

    def tid(self, t: Any) -> int:
        k = id(t)
        if k not in self.tok:
            self.tok[k] = len(self.tok) + 1
            self.keep.append(t)
        return self.tok[k]

    def tx(self, s: str) -> int:
        return self.txt.setdefault(s, len(self.txt) + 1)

    def obs(self) -> list:
        out = []
        for st in self.stores:
            toks = list(st)
            out.append({'txt': self.tx(''.join(t.raw_text for t in toks)), 'toks': [self.tid(t) for t in toks]})
        return out

    def ev(self, op: str, **kw: Any) -> None:
        base_ev = {'op': op, 'store': 0, 'exc': False, 'slice': 0, 'selfcontained': True, 'eq1': True, 'eq2': True,
                   'wellformed': True, 'sametype': True, 'sametext': True, 'samestruct': True, 'r1': True, 'r2': True,
                   'samehash': True, 'claimsame': True}
        base_ev.update(kw)
        base_ev['obs'] = self.obs()
        self.events.append(base_ev)


def perturb_text(t: Any) -> Optional[str]:
    if not t.raw_text:
        return None
    if isinstance(t, models.Newline):
        return t.raw_text + '\n'
    if isinstance(t, (models.Whitespace, models.Indent)):
        return t.raw_text + ' '
    if isinstance(t, models.BlockComment):
        return t.raw_text + 'x'
    if isinstance(t, models.EscapedString):
        return t.raw_text[:-1] + 'x"'
    if isinstance(t, models.Number):
        return t.raw_text + '1'
    if isinstance(t, models.Date):
        return '1999-12-31' if t.raw_text != '1999-12-31' else '1999-12-30'
    if t.RULE in ('ACCOUNT', 'CURRENCY', 'TAG', 'LINK', 'INLINE_COMMENT', 'IGNORED'):
        return t.raw_text + 'X'
    if t.RULE == 'META_KEY':
        return 'x' + t.raw_text
    if t.RULE == 'BOOL':
        return 'FALSE' if t.raw_text == 'TRUE' else 'TRUE'
    if t.RULE in ('ADD_OP', 'UNARY_OP'):
        return '-' if t.raw_text == '+' else '+'
    if t.RULE == 'MUL_OP':
        return '/' if t.raw_text == '*' else '*'
    if t.RULE in ('TRANSACTION_FLAG', 'POSTING_FLAG'):
        return '!' if t.raw_text != '!' else '*'
    return None


def wrapper_props(m: Any) -> list[str]:
    out = []
    for k in type(m).__mro__:
        for a, v in vars(k).items():
            if type(v).__name__ in ('repeated_node_property', 'repeated_node_with_interleaving_comments_property') and a not in out:
                out.append(a)
    return out


def view_props(m: Any) -> list[str]:
    out = []
    for k in type(m).__mro__:
        for a, v in vars(k).items():
            if type(v).__name__ in ('repeated_string_property', 'repeated_filtered_node_property',
                                    'repeated_raw_meta_item_property', 'repeated_meta_item_property') and a not in out:
                out.append(a)
    return out


def wrapper_copy_traces(text: str, default: bool) -> list[dict]:
    """copy.deepcopy of the list wrappers themselves (after the views of the original were used):
    editing the copy must not disturb the original's views."""
    traces = []
    try:
        f0 = tree.parse(text, auto_claim_comments=default)
    except Exception:  # noqa: BLE001
        return []
    n = len([1 for _ in tree.walk(f0)])
    for idx in range(n):
        f = tree.parse(text, auto_claim_comments=default)
        m = [x for p, x in tree.walk(f)][idx]
        if not isinstance(m, base.RawTreeModel) or isinstance(m, Repeated):
            continue
        for wname in wrapper_props(m):
            f = tree.parse(text, auto_claim_comments=default)
            m = [x for p, x in tree.walk(f)][idx]
            w = getattr(m, wname)
            views = {v: list(getattr(m, v)) for v in view_props(m)}      # registers the views' handlers
            r = Rec()
            r.stores.append(f.token_store)
            r.ev('init')
            try:
                wc = copy.deepcopy(w)
            except Exception as e:  # noqa: BLE001
                traces.append({'text': text, 'path': f'{idx}.{wname}', 'events': r.events,
                               'crash': f'deepcopy of {wname} raised {type(e).__name__}: {e}'})
                continue
            r.stores.append(wc.repeated.token_store)
            r.ev('copy', slice=r.tx(tree.text_of(w.repeated)), selfcontained=not tree.wellformed(wc.repeated, self_contained=True),
                 eq1=bool(wc.repeated == w.repeated), eq2=bool(w.repeated == wc.repeated))
            try:
                if len(wc):
                    wc.insert(0, copy.deepcopy(wc[0]))
                    wc.append(copy.deepcopy(wc[0]))
                    r.ev('edit', store=2, wellformed=not tree.wellformed(wc.repeated))
                    wc.pop(0)
                    r.ev('edit', store=2, wellformed=not tree.wellformed(wc.repeated))
                ok = True
                for v, before in views.items():
                    now = list(getattr(m, v))
                    if len(now) != len(before) or any((a is not b) if isinstance(a, base.RawModel) else (a != b)
                                                      for a, b in zip(now, before)):
                        ok = False
                if len(w):
                    w.append(copy.deepcopy(w[0]))
                    r.ev('edit', store=1, wellformed=(not tree.wellformed(f)) and ok)
                else:
                    r.ev('edit', store=1, exc=True, wellformed=ok)
                if not ok:
                    traces.append({'text': text, 'path': f'{idx}.{wname}', 'events': r.events,
                                   'crash': f'editing a deep copy of {wname} changed what the views of the original show'})
                    continue
            except Exception as e:  # noqa: BLE001
                traces.append({'text': text, 'path': f'{idx}.{wname}', 'events': r.events,
                               'crash': f'after deepcopy of {wname}: {type(e).__name__}: {e}'})
                continue
            traces.append({'text': text, 'path': f'{idx}.{wname}', 'events': r.events})
    return traces


def claim_states(text: str, default: bool) -> list[list]:
    """Attribution call sequences after which comments are owned by each of their possible owners
    (placeholders moved around): the plans of checks.comments cut after the second claim."""
    from checks import comments
    try:
        d0 = comments.Doc(text, default)
    except Exception:  # noqa: BLE001
        return []
    if not d0.comments:
        return []
    plans = comments.pingpong_plans(text, default, d0, comments.calls_for(d0))
    return [p[:-3] for p in plans][:8] + [p[:-5] for p in plans][:4]


def c11_traces(text: str, default: bool, max_models: int) -> list[dict]:
    traces = []
    try:
        f0 = tree.parse(text, auto_claim_comments=default)
    except Exception:  # noqa: BLE001
        return []
    traces += wrapper_copy_traces(text, default)
    variants: list = [None] + claim_states(text, default)
    for plan in variants:
      from checks import comments as _c
      def fresh() -> Any:
          if plan is None:
              return tree.parse(text, auto_claim_comments=default)
          d = _c.Doc(text, default)
          for call in plan:
              _c.perform(d, call, {}, None)
          return d.file
      try:
          paths = [p for p, m in tree.walk(fresh())]
      except Exception:  # noqa: BLE001
          continue
      for idx, path in enumerate(paths[:max_models]):
        if plan is not None and not (type([x for p, x in tree.walk(fresh())][idx]).__name__ in ('Repeated', 'Transaction', 'Posting', 'MetaItem', 'Open', 'File')):
            continue
        f = fresh()
        m = [x for p, x in tree.walk(f)][idx]
        if idx % 2:
            for p2, x in tree.walk(f):
                if hasattr(x, 'indent_by') and not isinstance(x, base.RawTokenModel):
                    x.indent_by = '  '          # configuration that a copy must carry along
        r = Rec()
        r.stores.append(f.token_store)
        r.ev('init')
        try:
            c = copy.deepcopy(m)
        except Exception as e:  # noqa: BLE001
            traces.append({'text': text, 'path': path, 'events': r.events, 'crash': f'deepcopy raised {type(e).__name__}: {e}'})
            continue
        cstore = c.token_store
        if cstore is None:
            continue
        r.stores.append(cstore)
        cl0 = [t.claimed for t in m.tokens if isinstance(t, models.BlockComment)]
        cl1 = [t.claimed for t in c.tokens if isinstance(t, models.BlockComment)]
        r.ev('copy', slice=r.tx(tree.text_of(m)), selfcontained=not tree.wellformed(c, self_contained=True),
             eq1=bool(c == m), eq2=bool(m == c), claimsame=cl0 == cl1)
        # edits on the copy, then on the original
        for side, root, store, sidx in (('copy', c, cstore, 2), ('orig', f, f.token_store, 1)):
            span = list(c.tokens) if side == 'copy' else list(m.tokens)
            cands = [t for t in span if perturb_text(t) is not None]
            for t in cands[:2] + cands[-1:]:
                exc = False
                try:
                    t.raw_text = perturb_text(t)
                except Exception:  # noqa: BLE001
                    exc = True
                r.ev('edit', store=sidx, exc=exc, wellformed=not tree.wellformed(root))
            # a structural edit where the model offers one
            node = c if side == 'copy' else m
            try:
                if isinstance(node, base.RawTreeModel) and hasattr(node, 'raw_meta_with_comments'):
                    node.raw_meta_with_comments.append(models.MetaItem.from_value('zz', 'v', indent='    '))
                    r.ev('edit', store=sidx, wellformed=not tree.wellformed(root))
                    node.raw_meta_with_comments.pop()
                    r.ev('edit', store=sidx, wellformed=not tree.wellformed(root))
                if hasattr(node, 'spacing_before') and node is not root and side == 'orig':
                    node.spacing_before = node.spacing_before + ' '
                    r.ev('edit', store=sidx, wellformed=not tree.wellformed(root))
            except Exception:  # noqa: BLE001
                r.ev('edit', store=sidx, exc=True)
        # the copy can be inserted into the original document (a free node), not the original sub-node
        if isinstance(m, models.MetaItem) or type(m).__name__ in ('Open', 'Close', 'Transaction', 'Note'):
            try:
                c2 = copy.deepcopy(m)
                if isinstance(m, models.MetaItem):
                    owner = next(x for p, x in tree.walk(f) if hasattr(x, 'raw_meta_with_comments')
                                 and any(i is m for i in x.raw_meta_with_comments))
                    owner.raw_meta_with_comments.append(c2)
                else:
                    f.raw_directives_with_comments.append(c2)
                r.ev('move', store=1, wellformed=not tree.wellformed(f))
                if tree.wellformed(f):
                    traces.append({'text': text, 'path': path, 'events': r.events, 'crash': f'tree after inserting a copy: {tree.wellformed(f)[:2]}'})
                    continue
            except Exception as e:  # noqa: BLE001
                traces.append({'text': text, 'path': path, 'events': r.events, 'crash': f'inserting a deep copy raised {type(e).__name__}: {e}'})
                continue
        traces.append({'text': text, 'path': path, 'events': r.events})
    return traces


def eq_event(r: Rec, a: Any, b: Any) -> None:
    try:
        r1, r2 = bool(a == b), bool(b == a)
    except Exception:  # noqa: BLE001
        r1, r2 = True, False
    r.ev('eq', r1=r1, r2=r2, sametype=type(a) is type(b), sametext=tree.text_of(a) == tree.text_of(b),
         samestruct=shape(a) == shape(b))


def c20_trace(text: str, default: bool, ext_texts: list[str]) -> Optional[dict]:
    try:
        f = tree.parse(text, auto_claim_comments=default)
        g = tree.parse(text, auto_claim_comments=default)
    except Exception:  # noqa: BLE001
        return None
    r = Rec()
    r.stores += [f.token_store, g.token_store]
    r.ev('init')
    eq_event(r, f, g)
    for t2 in ext_texts:       # same prefix, one more line: never equal
        try:
            eq_event(r, f, tree.parse(t2, auto_claim_comments=default))
        except Exception:  # noqa: BLE001
            pass
    nodes = [m for p, m in tree.walk(f)]
    # different objects of ONE document that print the same text: a wrapper and the only child filling it
    # (NumberExpr / NumberAddExpr / NumberMulExpr / Number, CostSpec / UnitCost), equal siblings, empty fields
    by_text: dict[str, list] = {}
    for m in nodes[:120]:
        if isinstance(m, Placeholder):
            continue
        try:
            by_text.setdefault(tree.text_of(m), []).append(m)
        except Exception:  # noqa: BLE001
            pass
    for group in by_text.values():
        for a, b in itertools.combinations(group[:5], 2):
            eq_event(r, a, b)
    for m in nodes[:40]:
        if isinstance(m, Placeholder):
            continue
        try:
            c = copy.deepcopy(m)
        except Exception:  # noqa: BLE001
            continue
        eq_event(r, m, c)
        if isinstance(m, base.RawTokenModel) and hasattr(type(m), 'value') and m.raw_text:
            # hash consistency, also after value edits
            try:
                u = copy.deepcopy(m)
                hash(u)
                p = perturb_text(u)
                if p is not None:
                    v = type(u).from_raw_text(p).value
                    u.value = v
                    w = type(u).from_raw_text(u.raw_text)
                    r.ev('hash', r1=bool(u == w), samehash=hash(u) == hash(w))
            except Exception:  # noqa: BLE001
                pass
        if c.token_store is None:
            continue
        # one perturbation at a time, each on a fresh copy
        for k, t in enumerate(list(c.tokens)[:12]):
            p = perturb_text(t)
            if p is None:
                continue
            c2 = copy.deepcopy(m)
            t2 = list(c2.tokens)[k]
            try:
                t2.raw_text = p
            except Exception:  # noqa: BLE001
                continue
            eq_event(r, m, c2)
        if isinstance(m, base.RawTreeModel) and not isinstance(m, Repeated):
            for name, d in tree.field_descriptors(type(m)):
                v = d.__get__(m)
                pub = 'raw' + name
                if name in ('_leading_comment', '_trailing_comment') and v is not None:
                    c2 = copy.deepcopy(m)
                    getattr(c2, 'unclaim' + name)()      # same text, ownership changed
                    eq_event(r, m, c2)
                elif v is not None and hasattr(type(m), pub) and type(getattr(type(m), pub)).__name__ == 'optional_node_property':
                    c2 = copy.deepcopy(m)
                    try:
                        setattr(c2, pub, None)
                        eq_event(r, m, c2)
                    except Exception:  # noqa: BLE001
                        pass
                elif isinstance(v, Repeated) and hasattr(type(m), pub + '_with_comments') and \
                        any(isinstance(i, models.BlockComment) for i in v.items):
                    c2 = copy.deepcopy(m)
                    try:
                        getattr(c2, pub + '_with_comments').unclaim_interleaving_comments()     # same text, ownership changed
                        eq_event(r, m, c2)
                    except Exception:  # noqa: BLE001
                        pass
                elif isinstance(v, Repeated) and v.items and hasattr(type(m), pub):
                    c2 = copy.deepcopy(m)
                    try:
                        getattr(c2, pub).pop()
                        eq_event(r, m, c2)
                    except Exception:  # noqa: BLE001
                        pass
    # same text, different token type
    for a, b in ((models.Bool.from_raw_text('TRUE'), models.Currency.from_raw_text('TRUE')),
                 (models.Whitespace.from_raw_text('    '), models.Indent.from_raw_text('    ')),
                 (models.Eol.from_default(), models.DedentMark.from_default())):
        r.ev('eq', r1=bool(a == b), r2=bool(b == a), sametype=False, sametext=a.raw_text == b.raw_text, samestruct=False)
    return {'text': text, 'events': r.events}


def validate(traces: list[dict], timeout: float = 1800) -> dict:
    out: dict = {'accepted': 0, 'rejected': [], 'states': 0, 'transitions': 0, 'errors': []}
    for start in range(0, len(traces), 1500):
        part = traces[start:start + 1500]
        fd, path = tempfile.mkstemp(prefix='verif_dtraces_', suffix='.json')
        try:
            with os.fdopen(fd, 'w') as f:
                json.dump([{'events': t['events']} for t in part], f)
            verdicts: dict = {}
            r = tlc.run('Docs', {}, init='TInit', next='TNext', constraints=['Report'], workers=1,
                        env={'TRACE_FILE': path}, timeout=timeout, print_prefixes=('VERDICT',),
                        on_print=lambda p: verdicts.__setitem__(p[1], (p[2], p[3], p[4])))
            out['states'] += r.distinct
            out['transitions'] += r.generated
            if not r.ok:
                out['errors'].append(r.violated or r.tail[-600:])
            for k in range(1, len(part) + 1):
                v = verdicts.get(k)
                if v is None:
                    out['errors'].append('missing verdict')
                elif v[0] == 'accepted':
                    out['accepted'] += 1
                else:
                    out['rejected'].append((start + k - 1, v[1], v[2]))
        finally:
            os.unlink(path)
    return out


def _chunk(arg: tuple) -> list:
    prop, flavors, docs, exts = arg
    out = []
    from checks import store_replay
    for dk, d in enumerate(docs):
        store_replay.set_load_factor(store_replay.rot(dk))      # models straddle block boundaries
        for fl in flavors:
            text = doclib.render(d, fl)
            for default in (True, False):
                if prop == 'C11':
                    out += c11_traces(text, default, 60)
                else:
                    et = [doclib.render(e, fl) for e in exts.get(tuple(d['lines']), [])]
                    tr = c20_trace(text, default, et)
                    if tr:
                        out.append(tr)
    store_replay.set_load_factor(1000)
    return out


def main(prop: str, tier: str) -> int:
    rep = common.Reporter(prop, tier)
    seed = common.seed()
    n = 3 if tier == 'quick' else 4
    if prop == 'C11' and tier == 'quick':
        n = 2
    docs, r = doclib.layouts(max_lines=n, accepted_only=True)
    if prop == 'C11' and tier == 'quick':
        import random
        d3, _ = doclib.layouts(max_lines=3, accepted_only=True)
        d3 = [d for d in d3 if len(d['lines']) == 3]
        docs += random.Random(seed).sample(d3, min(200, len(d3)))
    exts: dict = {}
    if prop == 'C20':
        bylines = {tuple(d['lines']): d for d in docs}
        for d in docs:
            if len(d['lines']) >= 1 and tuple(d['lines'][:-1]) in bylines:
                exts.setdefault(tuple(d['lines'][:-1]), []).append(d)
    traces: list = []
    with mp.Pool(16) as pool:
        jobs = [(prop, [seed % 12], ch, {k: v for k, v in exts.items() if any(tuple(d['lines']) == k for d in ch)})
                for ch in common.chunked(docs, 8)]
        for tr in common.gmap(pool, rep, _chunk, jobs):
            traces.extend(tr)
    for t in traces:
        if t.get('crash'):
            rep.violation(f'{prop}/crash', {'what': t['crash'], 'text': t['text'], 'model': t.get('path')})
    tv = validate(traces)
    for e in tv['errors']:
        rep.machinery_error(f'Docs trace validation: {e}')
    for ti, step, clause in tv['rejected']:
        t = traces[ti]
        rep.violation(f'{prop}/{clause}', {'what': f'rejected by Docs.tla at event {step}: {clause}', 'text': t['text'],
                                          'model': t.get('path'), 'event': {k: v for k, v in t['events'][step - 1].items() if k != 'obs'}})
    # sensitivity
    sens = {}
    vict = [t for t in traces if len(t['events']) >= 2][:5]
    if vict:
        c = json.loads(json.dumps(vict))
        for t in c:
            e = t['events'][1]
            if prop == 'C11':
                e['obs'][-1]['toks'] = e['obs'][-1]['toks'][:-1] + e['obs'][0]['toks'][:1]   # a shared token
            else:
                e['r2'] = not e['r2']
        cv = validate(c)
        sens['corrupted_traces_rejected'] = f'{len(cv["rejected"])}/{len(c)}'
        if len(cv['rejected']) != len(c):
            rep.machinery_error('sensitivity: a corrupted trace was accepted by Docs.tla')
    nev = sum(len(t['events']) for t in traces)
    rep.cov.update({'states': tv['states'] + r.distinct, 'transitions': tv['transitions'] + r.generated,
                    'traces_validated_against_impl': tv['accepted'] + len(tv['rejected']), 'documents': len(docs),
                    'events': nev, 'sensitivity': sens,
                    'samples': [{'text': traces[0]['text'], 'events': [{k: v for k, v in e.items() if k != 'obs'} for e in traces[0]['events'][:4]]}] if traces else []})
    rep.assumptions += ['documents of <= 2-4 structural lines, both attribution modes; one perturbation per comparison',
                        'indent_by (a configuration attribute that takes part in equality) is not perturbed']
    if prop == 'C11':
        from checks import inserted_comments
        ic = inserted_comments.run(rep, tier, {'copy'})
        rep.cov['inserted_comments_between_fields'] = {k: v for k, v in ic.items() if k != 'sample'}
        rep.cov['traces_validated_against_impl'] = rep.cov.get('traces_validated_against_impl', 0) + ic['behaviours']
    return rep.finish()


if __name__ == '__main__':
    sys.exit(main(sys.argv[1], sys.argv[2] if len(sys.argv) > 2 else 'quick'))

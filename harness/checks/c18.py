"""C18: Indent.tla behaviours replayed on real entries and postings."""
from __future__ import annotations

import json
import multiprocessing as mp
import sys
from typing import Any

from vlib import common, tlc, tree

common.import_repo()
from autobean_refactor import models  # noqa: E402

ENTRIES = ['2000-01-01 open Assets:A', '2000-01-01 close Assets:A', '2000-01-01 note Assets:A "n"', '2000-01-01 * "p"',
           '2000-01-01 balance Assets:A 1 USD', '2000-01-01 custom "c" 1']


def tla_str(s: str) -> str:
    return '"' + s.replace('\t', '\\t') + '"'


def replay(beh: list[dict], variant: int) -> list[tuple[str, str]]:
    init = beh[0]
    kind, pind = init['parent']
    sib = list(init['sib'])
    if kind == 'entry':
        head = ENTRIES[variant % len(ENTRIES)]
        text = head + ''.join(f'\n{i}k{n}: {n}' for n, i in enumerate(sib)) + '\n2000-02-02 close Assets:Z\n'
    else:
        text = '2000-01-01 * "p"\n' + f'{pind}Assets:A  1 USD' + ''.join(f'\n{i}k{n}: {n}' for n, i in enumerate(sib)) + \
               f'\n{pind}Assets:B\n'
    try:
        f = tree.parse(text)
    except Exception:  # noqa: BLE001
        return []       # this layout is not a document (e.g. meta less indented than allowed): outside the input space
    d0 = f.raw_directives[0]
    parent = d0 if kind == 'entry' else d0.raw_postings[0]
    if [m.indent for m in parent.raw_meta] != sib:
        return []
    parent.indent_by = init['by']
    len(parent.meta), list(parent.raw_meta)      # reading the views first must not freeze anything
    out = []
    nkey = 100
    for ev in beh[1:]:
        before_lines = tree.text_of(f).split('\n')
        before_items = [(id(m), m.indent) for m in parent.raw_meta]
        op = ev['op']
        try:
            if op == 'add_value':
                nkey += 1
                parent.meta[f'n{nkey}'] = 'v'
                item = parent.raw_meta[-1]
                if item.indent not in ev['expect']:
                    out.append((f'C18/{kind}/add_value', f'new item indented {item.indent!r}, documented rule allows {ev["expect"]} '
                                                         f'(siblings {[i for _, i in before_items]}, parent {pind!r}, indent_by {parent.indent_by!r})'))
                ev['sib'][-1] = item.indent      # (non-uniform layouts: follow the implementation's admissible choice)
            elif op == 'append_raw':
                nkey += 1
                item = models.MetaItem.from_value(f'r{nkey}', 'v', indent=ev['arg'])
                parent.raw_meta.append(item)
                if parent.raw_meta[-1].indent != ev['arg']:
                    out.append((f'C18/{kind}/append_raw', f'raw item built with indent {ev["arg"]!r} now has {parent.raw_meta[-1].indent!r}'))
            elif op == 'indent_by':
                parent.indent_by = ev['arg']
            elif op == 'parent_indent':
                parent.indent = ev['arg']
                pind = ev['arg']
            elif op == 'insert_comment':
                parent.raw_meta_with_comments.insert(0, models.BlockComment.from_value('standalone', indent=ev['arg']))
            elif op == 'clear':
                parent.raw_meta.clear()
            elif op.startswith('comment_'):
                side = op.split('_')[1]
                k = ev['arg']
                owner = parent if k == 0 else (parent.raw_meta[k - 1] if k <= len(parent.raw_meta) else None)
                if owner is None:
                    continue
                setattr(owner, side + '_comment', 'created\n\nafter an empty line')
                c = getattr(owner, 'raw_' + side + '_comment')
                exp = pind if k == 0 else owner.indent
                if c.indent != exp:
                    out.append((f'C18/{kind}/{op}', f'{side} comment created with indent {c.indent!r}, owner line is indented {exp!r}'))
                if not all(l.startswith(exp + ';') for l in c.raw_text.split('\n')):
                    out.append((f'C18/{kind}/{op}', f'{side} comment text {c.raw_text!r}: not every line starts with the owner indent {exp!r}'))
                setattr(owner, side + '_comment', None)      # keep the layout simple for the next steps
        except Exception as e:  # noqa: BLE001
            out.append((f'C18/{kind}/{op}/crash', f'{type(e).__name__}: {e}'))
            break
        # no existing line's indentation changed
        for (mid, ind) in before_items:
            cur = next((m for m in parent.raw_meta if id(m) == mid), None)
            if cur is not None and cur.indent != ind:
                out.append((f'C18/{kind}/{op}/existing', f'an existing item was re-indented from {ind!r} to {cur.indent!r}'))
        after_lines = tree.text_of(f).split('\n')
        if op in ('add_value', 'append_raw'):
            old = [l for l in before_lines]
            if not all(l in after_lines for l in old):
                out.append((f'C18/{kind}/{op}/existing', f'existing lines changed: {before_lines} -> {after_lines}'))
        # printed text keeps the nesting when every indent is non-empty
        if op in ('add_value', 'append_raw') and all(m.indent for m in parent.raw_meta):
            try:
                f2 = tree.parse(tree.text_of(f))
                if tree.content(f2) != tree.content(f):
                    out.append((f'C18/{kind}/{op}/reparse', f're-parse of {tree.text_of(f)!r} has other content'))
            except Exception as e:  # noqa: BLE001
                out.append((f'C18/{kind}/{op}/reparse', f'{tree.text_of(f)!r} does not parse: {type(e).__name__}'))
        if out:
            break
    return out


def _chunk(items: list) -> list:
    out = []
    from checks import store_replay
    for n, s in items:
        beh = json.loads(s)
        store_replay.set_load_factor(store_replay.rot(n))
        for fp, msg in replay(beh, n):
            out.append((fp, msg, beh))
    store_replay.set_load_factor(1000)
    return out


def main(prop: str, tier: str) -> int:
    rep = common.Reporter('C18', tier)
    inds = ['  ', '    ', '\t'] if tier == 'quick' else ['  ', '    ', '\t', '        ']
    bys = ['', ' ', '  ', '    ', '\t'] if tier == 'quick' else ['', ' ', '  ', '    ', '        ', '\t']
    layouts = ['<<>>'] + [f'<<{tla_str(i)}>>' for i in inds] + [f'<<{tla_str(i)}, {tla_str(i)}>>' for i in inds] + \
              [f'<<{tla_str("  ")}, {tla_str("    ")}>>', f'<<{tla_str("        ")}, {tla_str("    ")}>>']
    parents = ['<<"entry", "">>'] + [f'<<"posting", {tla_str(i)}>>' for i in inds[:3]]
    c = dict(Parents='{' + ', '.join(parents) + '}', Layouts='{' + ', '.join(layouts) + '}',
             IndentBys='{' + ', '.join(tla_str(b) for b in bys) + '}',
             RawIndents='{' + ', '.join(tla_str(i) for i in ['  ', '      ', '\t']) + '}', Depth='2' if tier == 'quick' else '3')
    behs: list[str] = []
    r = tlc.run('Indent', c, invariants=['NoInvention'], constraints=['Emit'], on_print=lambda p: behs.append(p[1]), timeout=3000)
    if not r.ok:
        rep.machinery_error(f'Indent TLC run failed: {r.violated} {r.tail[-800:]}')
    with mp.Pool(16) as pool:
        for out in common.gmap(pool, rep, _chunk, list(common.chunked(list(enumerate(behs)), 300))):
            for fp, msg, beh in out:
                rep.violation(fp, {'what': msg, 'behaviour': beh})
    rep.cov.update({'states': r.distinct or 1, 'transitions': r.generated or 1, 'traces_validated_against_impl': len(behs),
                    'samples': [json.loads(behs[len(behs) // 2])] if behs else [], 'exhaustive': True,
                    'rule': 'every parent (entries, postings at 2/4/tab) x existing meta layout x indent_by x every sequence of '
                            'value insertions, raw appends, indent_by changes, clears and comment setters up to the depth'})
    rep.assumptions += ['with non-uniform existing indentation only "equals one of the siblings\'" is required',
                        'layouts the parser rejects are outside the input space']
    return rep.finish()


if __name__ == '__main__':
    sys.exit(main('C18', sys.argv[1] if len(sys.argv) > 1 else 'quick'))

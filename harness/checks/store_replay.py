"""B1/B2 for the token store: replay BlockStore.tla behaviours into the real TokenStore."""
from __future__ import annotations

import json
from typing import Any, Optional

from vlib import common, storeobs

common.import_repo()
from autobean_refactor import token_store as ts  # noqa: E402

C07_KINDS = {'seq', 'len', 'first', 'last', 'index', 'prev', 'next', 'iter', 'detached', 'crash', 'refusal'}
C08_KINDS = {'position', 'index'}


def set_load_factor(L: Any, layout: Optional[str] = None) -> None:
    """Block size of the token store (the shipped value is 1000: small documents are one block).  `L` may be a pair
    (L, layout): every freshly parsed store is then re-partitioned into the given block shape, see reshape()."""
    if isinstance(L, (tuple, list)):
        L, layout = L
    ts._LOAD_FACTOR = L
    ts._DOUBLE_LOAD_FACTOR = L * 2
    ts._HALF_LOAD_FACTOR = L // 2
    ts._ONE_HALF_LOAD_FACTOR = L + L // 2
    from vlib import tree
    tree.LAYOUT = (lambda store: reshape(store, layout)) if layout else None


def reshape(store: Any, layout: str) -> None:
    """Re-partition a store into blocks whose sizes alternate between the largest and the smallest size the store's
    own invariant allows between edits (HALF < size < DOUBLE): 'bs' = big, small, big, ...; 'sb' = small, big, ...
    These are the shapes edit histories leave behind (a block grown by insertions next to one shrunk by removals);
    the next removal from a small block makes the store merge it with a big neighbour and rebalance the pair, the
    next insertion into a big one makes it split.  Token order and identity are untouched."""
    if not (hasattr(store, '_blocks') and hasattr(ts, '_StoreBlock') and hasattr(ts._StoreBlock, 'from_tokens')):
        return      # the private layout this relies on is gone: keep the store as the parser built it
    toks = list(store)
    if not toks:
        return
    big, small = ts._DOUBLE_LOAD_FACTOR - 1, ts._HALF_LOAD_FACTOR + 1
    sizes = [big, small] if layout == 'bs' else [small, big]
    chunks = []
    i = k = 0
    while i < len(toks):
        chunks.append(toks[i:i + sizes[k % 2]])
        i += sizes[k % 2]
        k += 1
    if len(chunks) > 1 and len(chunks[-1]) <= ts._HALF_LOAD_FACTOR:
        last = chunks.pop()
        joined = chunks.pop() + last
        if len(joined) < ts._DOUBLE_LOAD_FACTOR:
            chunks.append(joined)
        else:
            chunks += [joined[:len(joined) // 2], joined[len(joined) // 2:]]
    for t in toks:
        t.store_handle = None
    store._blocks[:] = [ts._StoreBlock.from_tokens(c, store, j) for j, c in enumerate(chunks)]


# the rotation the model-level checks use: plain block sizes and adversarial shapes
ROTATION = [2, (4, 'bs'), 1000, 3, (2, 'bs'), 4, (6, 'sb'), (3, 'bs'), (2, 'sb')]


def rot(k: int) -> Any:
    return ROTATION[k % len(ROTATION)]


def replay(beh: list[dict], L: int, variant: int) -> dict:
    """Returns {'bad': [(step, kind, msg)], 'drift': n, 'steps': n}."""
    set_load_factor(L)
    toks: dict[int, Any] = {}
    init = beh[0]
    for i, sz in enumerate(init['szs']):
        toks[i + 1] = ts.Token(storeobs.text_for_size(sz[0], sz[1], variant + i))
    ref = [toks[i + 1] for i in range(init['n'])]
    store = ts.TokenStore.from_tokens(list(ref))
    removed: list = []
    bad: list = []
    drift = 0
    for kind, msg in storeobs.observe(store, ref, removed):
        bad.append((0, kind, msg))
    lay = storeobs.layout(store)
    if lay is not None and (lay['lens'] != init['post']['lens'] or lay['idx'] != init['post']['idx']):
        drift += 1
    for step, ev in enumerate(beh[1:], 1):
        op = ev['op']
        exc = None
        try:
            if op in ('splice', 'insert_after'):
                new = []
                for tid, sz in zip(ev['toks'], ev['szs']):
                    if tid not in toks:
                        toks[tid] = ts.Token(storeobs.text_for_size(sz[0], sz[1], variant + tid))
                    elif ev.get('kind') != 'rot' and tuple(sz) != storeobs.text_size(toks[tid].raw_text):
                        # a free (previously removed) token is re-inserted with another text
                        toks[tid].raw_text = storeobs.text_for_size(sz[0], sz[1], variant + tid)
                    new.append(toks[tid])
                if op == 'insert_after':
                    r = ev['r']
                    store.insert_after(ref[r - 1] if r else None, new)
                else:
                    r, e = ev['r'], ev['e']
                    rt = ref[r - 1] if r else None
                    et = ref[e - 1] if e else None
                    if variant % 2 and r and e and not new:
                        store.remove(rt, et if e != r else None)
                    elif variant % 2 and r and e == r and len(new) == 1:
                        store.replace(rt, new[0])
                    elif variant % 2 and not e:
                        store.insert_before(rt, new)
                    else:
                        store.splice(new, rt, et)
            elif op == 'foreign':
                r, e, f = ev['r'], ev['e'], ev['f']
                try:
                    store.splice([ref[f - 1]], ref[r - 1], ref[e - 1] if e else None)
                    bad.append((step, 'refusal', 'token already in the store was accepted'))
                except ValueError:
                    pass
            elif op == 'update':
                t = ref[ev['i'] - 1]
                t.raw_text = storeobs.text_for_size(ev['sz'][0], ev['sz'][1], variant + step)
        except Exception as e:  # noqa: BLE001
            exc = e
            bad.append((step, 'crash', f'{op}: {type(e).__name__}: {e}'))
            break
        new_ref = [toks[i] for i in ev['post']['ref']]
        now = set(map(id, new_ref))
        removed = [t for t in toks.values() if id(t) not in now]
        ref = new_ref
        obs = storeobs.observe(store, ref, removed)
        for kind, msg in obs:
            bad.append((step, kind, f'after {op}: {msg}'))
        if any(k in ('seq', 'crash') for k, _ in obs):
            break
        lay = storeobs.layout(store)
        if lay is not None and (lay['lens'] != ev['post']['lens'] or lay['idx'] != ev['post']['idx']):
            drift += 1
    return {'bad': bad, 'drift': drift, 'steps': len(beh) - 1}


def replay_chunk(args: tuple) -> list:
    """args = (L, [(k, json-string)]) → [(k, result)] for behaviours with findings or drift."""
    L, items = args
    out = []
    nsteps = 0
    for k, s in items:
        beh = json.loads(s) if isinstance(s, str) else s
        res = replay(beh, L, k)
        nsteps += res['steps']
        if res['bad'] or res['drift']:
            out.append((k, res, beh))
    return [nsteps, out]

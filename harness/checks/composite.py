"""C03 / C05 / C06: repeated fields (RepList.tla) + fixed slots (Slots.tla) + further edit kinds."""
from __future__ import annotations

import sys

from vlib import common

SLOT_KINDS = {'C03': {'frame', 'presence'}, 'C05': {'tree'}, 'C06': {'reparse'}}


def add_part(rep: common.Reporter, name: str, p: dict) -> None:
    rep.cov.setdefault('parts', {})[name] = {k: v for k, v in p.items() if k != 'sample'}
    rep.cov['states'] = rep.cov.get('states', 0) + p.get('states', 0)
    rep.cov['transitions'] = rep.cov.get('transitions', 0) + p.get('transitions', 0)
    rep.cov['traces_validated_against_impl'] = rep.cov.get('traces_validated_against_impl', 0) + p.get('behaviours', 0)
    if p.get('sample') is not None:
        rep.cov.setdefault('samples', []).append(p['sample'])


def main(prop: str, tier: str) -> int:
    rep = common.Reporter(prop, tier)
    from checks import replist_check, slots
    replist_check.main(prop, tier, rep=rep, finish=False)
    add_part(rep, 'slots', slots.run(rep, tier, SLOT_KINDS[prop]))
    from checks import metavalue
    add_part(rep, 'meta_values', metavalue.run(rep, tier, {'C03': {'frame'}, 'C05': {'tree'}, 'C06': {'reparse'}}[prop]))
    if prop == 'C05':
        try:
            from checks import edits_c05
            add_part(rep, 'edit_histories', edits_c05.run(rep, tier))
        except ImportError:
            pass
    if prop == 'C06':
        from checks import c09
        cp = c09.cost_part(rep, tier, kinds={'reparse'})
        cp.pop('design_deviations_of_transcribed_algorithm', None)
        add_part(rep, 'cost_setters', cp)
        try:
            from checks import numexpr
            add_part(rep, 'arithmetic', numexpr.run(rep, tier, {'reparse'}))
        except ImportError:
            pass
    if prop == 'C05':
        # in-place arithmetic moves the operand's subtree (a unary / parenthesised atom, a whole sum) into the
        # document: NumExpr.tla behaviours on a posting's number, Tree predicates after every in-place step
        from checks import numexpr
        add_part(rep, 'arithmetic_in_documents', numexpr.run(rep, tier, {'tree'}))
    if prop == 'C05':
        from checks import inserted_comments
        add_part(rep, 'inserted_comments_between_fields', inserted_comments.run(rep, tier, {'tree'}))
    if prop == 'C05':
        from checks import treecheck
        add_part(rep, 'tree_tla_cross_check', treecheck.run(rep, tier))
    if prop in ('C05', 'C06'):
        from checks import compose
        add_part(rep, 'composed_histories', compose.run(rep, tier, prop))
    return rep.finish()


if __name__ == '__main__':
    sys.exit(main(sys.argv[1], sys.argv[2]))

"""C17: spacing accessors - recorded get / set executions validated by TLC against Spacing.tla."""
from __future__ import annotations

import itertools
import json
import multiprocessing as mp
import os
import random
import sys
import tempfile
from typing import Any, Optional

from vlib import common, doclib, tlc, tree

common.import_repo()
from autobean_refactor import models  # noqa: E402
from autobean_refactor.models import base  # noqa: E402
from autobean_refactor.models.internal.spacing_accessors import SpacingAccessorsMixin  # noqa: E402

ATOMS = [' ', '\t', '\n', '\r\n']
STRINGS = [''] + [''.join(p) for k in (1, 2) for p in itertools.product(ATOMS, repeat=k)] + ['  \n  ', '\n\n\n', ' \t ', '\r\n\r\n\t']


def kind(t: Any) -> str:
    if not t.raw_text:
        return 'Z'
    if isinstance(t, models.Newline):
        return 'N'
    if isinstance(t, models.Whitespace):
        return 'B'
    return 'O'


class Rec:
    def __init__(self) -> None:
        self.ids: dict[int, int] = {}
        self.keep: list = []
        self.events: list = []

    def tid(self, t: Any) -> int:
        if id(t) not in self.ids:
            self.ids[id(t)] = len(self.ids) + 1
            self.keep.append(t)
        return self.ids[id(t)]

    def row(self, store: Any) -> list:
        return [{'id': self.tid(t), 'k': kind(t), 'n': len(t.raw_text)} for t in store]


def base_ev(op: str, **kw: Any) -> dict:
    e = {'op': op, 'row': [], 'row2': [], 'a': 0, 'b': 0, 'side': 'after', 'got': [], 'slen': 0, 'readback': True, 'same': True}
    e.update(kw)
    return e


def trace_for(text: str, default: bool, idx: int, side: str, strings: list[str]) -> Optional[dict]:
    f = tree.parse(text, auto_claim_comments=default)
    nodes = [m for p, m in tree.walk(f)]
    m = nodes[idx]
    store = f.token_store
    r = Rec()
    crash = None
    nonblank0 = [(id(t), t.raw_text) for t in store if kind(t) in ('O',)]
    for s in strings:
        try:
            row = r.row(store)
            a, b = store.get_index(m.first_token) + 1, store.get_index(m.last_token) + 1
            got = list(getattr(m, 'raw_spacing_' + side))
            r.events.append(base_ev('get', row=row, a=a, b=b, side=side, got=[r.tid(t) for t in got]))
            setattr(m, 'spacing_' + side, s)
            row2 = r.row(store)
            rb = getattr(m, 'spacing_' + side) == s
            r.events.append(base_ev('set', row=row, row2=row2, a=a, b=b, side=side, slen=len(s), readback=rb))
        except Exception as e:  # noqa: BLE001
            crash = f'spacing_{side} = {s!r} on {type(m).__name__}: {type(e).__name__}: {e}'
            break
    nonblank1 = [(id(t), t.raw_text) for t in store if kind(t) in ('O',)]
    if crash is None and nonblank0 != nonblank1:
        crash = 'non-blank tokens changed identity / order / text'
    if crash is None:
        bad = tree.wellformed(f)
        if bad:
            crash = 'tree after spacing assignments: ' + '; '.join(bad[:2])
        else:
            # later edits through the neighbours still work (zero-width leaves were not spliced away)
            try:
                for p, x in tree.walk(f):
                    if hasattr(x, 'raw_meta_with_comments') and x is not f:
                        x.meta['zz'] = 'v'
                        break
                tree.text_of(f)
            except Exception as e:  # noqa: BLE001
                crash = f'an edit after the spacing assignments failed: {type(e).__name__}: {e}'
    return {'text': text, 'model': type(m).__name__, 'events': r.events, 'crash': crash}


def adjacency(text: str, default: bool) -> list[dict]:
    """Neighbours whose gap is zero-width* blanks* zero-width* see the same string from both sides."""
    f = tree.parse(text, auto_claim_comments=default)
    store = f.token_store
    toks = list(store)
    idx = {id(t): i for i, t in enumerate(toks)}
    walked = [m for p, m in tree.walk(f)]
    nodes = [m for m in walked if isinstance(m, SpacingAccessorsMixin) and m is not f]
    owned = {id(m) for m in walked if isinstance(m, base.RawTokenModel)}

    def gap_kind(t: Any) -> str:
        # a token that is nobody's child and whose text is blanks only is whitespace between the neighbours, whatever
        # its class (an indentation token that belongs to a posting / meta item is that model's own first token)
        k = kind(t)
        if k == 'O' and id(t) not in owned and not t.raw_text.strip(' \t'):
            return 'B'
        return k
    out = []
    for A in nodes:
        ea = idx[id(A.last_token)]
        for B in nodes:
            sb = idx[id(B.first_token)]
            if sb <= ea:
                continue
            gap = toks[ea + 1:sb]
            ks = ''.join(gap_kind(t) for t in gap)
            core = ks.strip('Z')
            if not gap or 'O' in ks or 'Z' in core or not core or not tree.text_of(A) or not tree.text_of(B):
                continue      # (zero-width marks are not neighbours; a gap without blanks is no gap)
            between = ''.join(t.raw_text for t in gap)
            out.append(base_ev('adj', same=A.spacing_after == B.spacing_before == between))
    return [{'text': text, 'model': 'adjacent pairs', 'events': out, 'crash': None}] if out else []


def _chunk(arg: tuple) -> list:
    seed, flavors, docs, per = arg
    rng = random.Random(seed)
    out = []
    from checks import store_replay
    for dk, d in enumerate(docs):
        store_replay.set_load_factor(store_replay.rot(dk))     # spacing edits straddle block boundaries
        for fl in flavors:
            text = doclib.render(d, fl)
            for default in (True, False):
                try:
                    f = tree.parse(text, auto_claim_comments=default)
                except Exception:  # noqa: BLE001
                    continue
                if len(f.token_store) > 60:
                    continue
                out += adjacency(text, default)
                nodes = [m for p, m in tree.walk(f)]
                for idx, m in enumerate(nodes):
                    if not isinstance(m, SpacingAccessorsMixin) or m is f:
                        continue
                    for side in ('before', 'after'):
                        strs = rng.sample(STRINGS, per)
                        try:
                            tr = trace_for(text, default, idx, side, strs)
                        except Exception as e:  # noqa: BLE001
                            tr = {'text': text, 'model': type(m).__name__, 'events': [], 'crash': f'{type(e).__name__}: {e}'}
                        if tr:
                            out.append(tr)
    store_replay.set_load_factor(1000)
    return out


def validate(traces: list[dict]) -> dict:
    out: dict = {'accepted': 0, 'rejected': [], 'states': 0, 'transitions': 0, 'errors': []}
    for start in range(0, len(traces), 2000):
        part = traces[start:start + 2000]
        fd, path = tempfile.mkstemp(prefix='verif_straces_', suffix='.json')
        try:
            with os.fdopen(fd, 'w') as f:
                json.dump([{'events': t['events']} for t in part], f)
            verdicts: dict = {}
            r = tlc.run('Spacing', {}, init='TInit', next='TNext', constraints=['Report'], workers=1,
                        env={'TRACE_FILE': path}, timeout=1800, print_prefixes=('VERDICT',),
                        on_print=lambda p: verdicts.__setitem__(p[1], (p[2], p[3], p[4])))
            out['states'] += r.distinct
            out['transitions'] += r.generated
            if not r.ok:
                out['errors'].append(r.violated or r.tail[-600:])
            for k in range(1, len(part) + 1):
                v = verdicts.get(k)
                if v is None:
                    out['errors'].append('missing verdict')
                elif v[0] == 'accepted':
                    out['accepted'] += 1
                else:
                    out['rejected'].append((start + k - 1, v[1], v[2]))
        finally:
            os.unlink(path)
    return out


def run(rep: common.Reporter, tier: str, prop: str = 'C17') -> dict:
    seed = common.seed()
    docs, r = doclib.layouts(max_lines=2 if tier == 'quick' else 3, accepted_only=True,
                             devs=('none', 'trail', 'trailinline'), eols=('lf', 'crlf'), finals=(True, False))
    rng = random.Random(seed)
    more, _ = doclib.layouts(max_lines=3 if tier == 'quick' else 4, accepted_only=True, eols=('lf', 'crlf'))
    more = [d for d in more if len(d['lines']) == (3 if tier == 'quick' else 4)]
    # every document with a whitespace-only or blank line between two other lines (gaps of several tokens), both
    # line-end conventions; the rest sampled
    gaps = [d for d in more if any(k in ('ws', 'blank') for k in d['lines'][1:-1])]
    rest = [d for d in more if d not in gaps]
    if tier == 'quick':
        gaps = rng.sample(gaps, min(len(gaps), 260))
    docs = docs + gaps + rng.sample(rest, min(len(rest), 150 if tier == 'quick' else 1500))
    traces: list = []
    with mp.Pool(16) as pool:
        jobs = [(seed + j, [seed % 12], ch, 2 if tier == 'quick' else 4) for j, ch in enumerate(common.chunked(docs, 10))]
        for tr in common.gmap(pool, rep, _chunk, jobs):
            traces.extend(tr)
    for t in traces:
        if t.get('crash'):
            rep.violation(f'{prop}/spacing/crash' if prop == 'C17' else f'{prop}/spacing', {'what': t['crash'], 'text': t['text'], 'model': t['model']})
    tv = {'accepted': 0, 'rejected': [], 'states': 0, 'transitions': 0, 'errors': []}
    if prop == 'C17':
        tv = validate([t for t in traces if t['events']])
        vt = [t for t in traces if t['events']]
        for e in tv['errors']:
            rep.machinery_error(f'Spacing trace validation: {e}')
        for ti, step, clause in tv['rejected']:
            t = vt[ti]
            rep.violation(f'C17/{clause}', {'what': f'rejected by Spacing.tla at event {step}: {clause}', 'text': t['text'],
                                            'model': t['model'], 'event': t['events'][step - 1]})
        vict = [t for t in vt if any(e['op'] == 'set' for e in t['events'])][:5]
        if vict:
            c = json.loads(json.dumps(vict))
            for t in c:
                e = next(e for e in t['events'] if e['op'] == 'set')
                e['slen'] += 1
            cv = validate(c)
            if len(cv['rejected']) != len(c):
                rep.machinery_error('sensitivity: a corrupted spacing trace was accepted')
    return {'states': tv['states'] + r.distinct, 'transitions': tv['transitions'] + r.generated,
            'behaviours': len(traces), 'documents': len(docs), 'events': sum(len(t['events']) for t in traces),
            'sample': {'text': traces[0]['text'], 'events': traces[0]['events'][:2]} if traces else None}


def refusal_part(rep: common.Reporter, tier: str) -> dict:
    """C19: assigning spacing TOKENS that still live elsewhere (raw_spacing_x = other.raw_spacing_y without a
    copy) must be refused and leave the document exactly as it was."""
    docs, r = doclib.layouts(max_lines=3, accepted_only=True)
    rng = random.Random(common.seed())
    docs = rng.sample(docs, min(len(docs), 300))
    n = 0
    for d in docs:
        text = doclib.render(d, rng.randrange(12))
        try:
            f = tree.parse(text)
        except Exception:  # noqa: BLE001
            continue
        nodes = [m for p, m in tree.walk(f) if isinstance(m, SpacingAccessorsMixin) and m is not f]
        donors = [(m, side) for m in nodes for side in ('before', 'after') if getattr(m, 'raw_spacing_' + side)]
        targets = [(m, side) for m in nodes for side in ('before', 'after')]
        if not donors or not targets:
            continue
        for _ in range(6):
            (dm, ds), (tm, ts_) = rng.choice(donors), rng.choice(targets)
            toks = tuple(getattr(dm, 'raw_spacing_' + ds))
            cur = tuple(getattr(tm, 'raw_spacing_' + ts_))
            if cur and any(a is b for a in toks for b in cur):
                continue            # assigning a run to itself is not a refusal case
            before = [(id(t), t.raw_text) for t in f.token_store]
            try:
                setattr(tm, 'raw_spacing_' + ts_, toks)
                exc = ''
            except ValueError:
                exc = 'ValueError'
            except Exception as e:  # noqa: BLE001
                exc = type(e).__name__
            n += 1
            after = [(id(t), t.raw_text) for t in f.token_store]
            if exc != 'ValueError':
                rep.violation('C19/spacing/attached-tokens-accepted', {'what': f'spacing tokens that live elsewhere were accepted ({exc or "no exception"}); '
                                                                              f'text {text!r} -> {tree.text_of(f)!r}'})
                break
            if after != before:
                rep.violation('C19/spacing/refused-call-changed-document', {'what': f'refused spacing assignment changed the document: {text!r} -> {tree.text_of(f)!r}'})
                break
    return {'states': r.distinct, 'transitions': r.generated, 'behaviours': n}


def main(prop: str, tier: str) -> int:
    rep = common.Reporter('C17', tier)
    p = run(rep, tier)
    rep.cov.update({'states': p['states'], 'transitions': p['transitions'], 'traces_validated_against_impl': p['behaviours'],
                    'documents': p['documents'], 'events': p['events'], 'samples': [p['sample']]})
    rep.assumptions += ['strings over {space, tab, LF, CRLF} up to length 2 plus a few longer ones, sampled per model and side',
                        'neighbour pairs with zero-width marks inside the blank run are not called adjacent']
    return rep.finish()


if __name__ == '__main__':
    sys.exit(main('C17', sys.argv[1] if len(sys.argv) > 1 else 'quick'))

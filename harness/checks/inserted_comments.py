"""Comments that enter a document through the API and are then handed between neighbouring fields.

Parsing never leaves two SEPARATE block-comment tokens next to each other inside one body (adjacent comment lines are one
token, a blank line closes the body), so the claim logic for "several comments in front of / behind a field's
placeholder" is only reachable through edit histories: k comments appended to (or put in front of) one repeated field,
released, and claimed by the neighbouring field - and back.  After every call:
  tree   Tree!WellFormed (C05; also the ownership clauses of C14: every comment leaf owned once, inside its owner's span)
  text   a claim / unclaim call changes no character (C04)
  copy   deep copies of the file and of every repeated field succeed, are equal, print the same text, share no token (C11)
"""
from __future__ import annotations

import copy
import itertools
from typing import Any

from vlib import common, tree

common.import_repo()
from autobean_refactor import models  # noqa: E402

HOSTS = {
    'txn-meta-then-postings': ('2000-01-01 * "n"\n    kk: 1\n    Assets:A  1 USD\n    Assets:B\n2000-01-02 close Assets:A\n',
                               lambda f: (f.raw_directives[0].raw_meta_with_comments, f.raw_directives[0].raw_postings_with_comments), '    '),
    'txn-no-meta': ('2000-01-01 *\n    Assets:A  1 USD\n    Assets:B\n',
                    lambda f: (f.raw_directives[0].raw_meta_with_comments, f.raw_directives[0].raw_postings_with_comments), '    '),
    'posting-meta-then-next-posting': ('2000-01-01 *\n    Assets:A  1 USD\n        pk: 1\n    Assets:B\n',
                                       lambda f: (f.raw_directives[0].raw_postings[0].raw_meta_with_comments,
                                                  f.raw_directives[0].raw_postings_with_comments), '        '),
    'open-meta-then-file': ('2000-01-01 open Assets:A\n    kk: 1\n2000-01-02 close Assets:A\n',
                            lambda f: (f.raw_directives[0].raw_meta_with_comments, f.raw_directives_with_comments), '    '),
}
# where the k comments are put into the first field, and which calls follow
PLACES = ('append', 'prepend')
SEQS = [
    ('unclaim1', 'claim2'),
    ('unclaim1', 'claim2', 'unclaim2', 'claim1'),
    ('unclaim1', 'claim2', 'pop2first'),
    ('unclaim1', 'claim1'),
    ('unclaim1', 'claim2', 'unclaim2', 'claim2'),
]


def copy_findings(f: Any, wrappers: tuple) -> list[str]:
    out = []
    for name, obj in (('file', f), ('field 1', wrappers[0]), ('field 2', wrappers[1])):
        try:
            c = copy.deepcopy(obj)
        except Exception as e:  # noqa: BLE001
            out.append(f'deepcopy of {name} raised {type(e).__name__}: {e}')
            continue
        if name == 'file':
            if tree.text_of(c) != tree.text_of(f):
                out.append(f'copy of the file prints {tree.text_of(c)!r}, the original {tree.text_of(f)!r}')
            if not (c == f and f == c):
                out.append('copy of the file is not equal to the original')
            if {id(t) for t in c.token_store} & {id(t) for t in f.token_store}:
                out.append('copy of the file shares tokens with the original')
            bad = tree.wellformed(c)
            if bad:
                out.append('copy of the file: ' + '; '.join(bad[:2]))
        else:
            try:
                if [tree.text_of(x) for x in c] != [tree.text_of(x) for x in obj]:
                    out.append(f'copy of {name} holds different items')
            except Exception as e:  # noqa: BLE001
                out.append(f'copy of {name} cannot be read: {type(e).__name__}: {e}')
    return out


def scenario(host: str, k: int, place: str, seq: tuple, lf: Any) -> list[tuple[str, str]]:
    from checks import store_replay
    store_replay.set_load_factor(lf)
    text, pick, indent = HOSTS[host]
    f = tree.parse(text)
    w1, w2 = pick(f)
    findings: list[tuple[str, str]] = []
    hist = []
    try:
        for j in range(k):
            c = models.BlockComment.from_value(f'c{j}', indent=indent)
            if place == 'append':
                w1.append(c)
            else:
                w1.insert(0, c)
        hist.append(f'{place} x{k}')
        bad = tree.wellformed(f)
        if bad:
            return [('tree', f'{host}: after {hist}: ' + '; '.join(bad[:2]))]
        for call in seq:
            before = tree.text_of(f)
            hist.append(call)
            with common.guard():
                if call == 'unclaim1':
                    w1.unclaim_interleaving_comments()
                elif call == 'claim1':
                    w1.claim_interleaving_comments()
                elif call == 'unclaim2':
                    w2.unclaim_interleaving_comments()
                elif call == 'claim2':
                    w2.claim_interleaving_comments()
                elif call == 'pop2first':
                    if len(w2):
                        w2.pop(0)
                    before = tree.text_of(f)
            if call != 'pop2first' and tree.text_of(f) != before:
                findings.append(('text', f'{host}: {hist}: the call changed the text: {before!r} -> {tree.text_of(f)!r}'))
            bad = tree.wellformed(f)
            if bad:
                findings.append(('tree', f'{host}: after {hist}: ' + '; '.join(bad[:2])))
            for msg in copy_findings(f, (w1, w2)):
                findings.append(('copy', f'{host}: after {hist}: {msg}'))
            if findings:
                break
    except ValueError as e:
        # a claim that cannot be satisfied is refused: fine, as long as nothing changed (judged by C19 elsewhere)
        hist.append(f'refused: {e}')
    except common.Runaway:
        raise
    except Exception as e:  # noqa: BLE001
        findings.append(('tree', f'{host}: {hist}: {type(e).__name__}: {e}'))
    finally:
        store_replay.set_load_factor(1000)
    return findings


def run(rep: common.Reporter, tier: str, kinds: set[str]) -> dict:
    from checks import store_replay
    n = 0
    ks = (1, 2) if tier == 'quick' else (1, 2, 3)
    for host, k, place, seq in itertools.product(HOSTS, ks, PLACES, SEQS):
        for lf in ((1000, store_replay.rot(n)) if tier == 'quick' else [1000] + store_replay.ROTATION[:5]):
            n += 1
            for kind, msg in scenario(host, k, place, seq, lf):
                if kind in kinds:
                    rep.violation(f'{rep.prop}/inserted-comments/{host}/{kind}', {'what': msg, 'k': k, 'place': place, 'calls': list(seq)})
    return {'states': 0, 'transitions': 0, 'behaviours': n, 'scenarios': n, 'sample': None}

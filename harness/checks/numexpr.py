"""C13 (and the arithmetic parts of C06 / C19): NumExpr.tla operator chains replayed on real NumberExpr
objects, free-standing and attached inside documents."""
from __future__ import annotations

import decimal
import json
import multiprocessing as mp
import re
import sys
from typing import Any, Optional

from vlib import common, tlc, tree

common.import_repo()
from autobean_refactor import models  # noqa: E402

INITS = ['1', '1+2', '3-1-1', '2*3', '6/2/3', '-2', '(1)', '(1+2)*3', '1+2*3', '-(1+2)', '+-1']
OPERANDS = '{<<"int",2>>,<<"int",-3>>,<<"int",0>>,<<"expr","1+2">>,<<"expr","2*3">>,<<"expr","-2">>,<<"expr","1">>,<<"neg","1+2">>,<<"self","">>}'
HOSTS = {
    'free': None,
    'posting': ('2000-01-01 *\n    Assets:A  ', ' USD {2 EUR} @ 3 CAD ; ic\n    Assets:B\n'),
    'balance': ('2000-01-01 open Assets:A\n2000-01-01 balance Assets:A ', ' ~ 0.1 USD\n'),
    'meta': ('2000-01-01 open Assets:A\n    kk: ', '\n    zz: 2\n'),
}


def render(tokens: list, variant: int) -> str:
    """Text of a token list with odd but legal spacing."""
    out = ''
    for i, t in enumerate(tokens):
        s = str(t)
        if i and variant % 3 == 1:
            out += ' '
        elif i and variant % 3 == 2 and s not in (')',) and tokens[i - 1] not in ('(',):
            out += '  ' if i % 2 else ''
        elif i and s in ('+', '-', '*', '/') and tokens[i - 1] not in ('(', '+', '-', '*', '/'):
            out += ' '
        elif i and tokens[i - 1] in ('+', '-', '*', '/') and i >= 2 and tokens[i - 2] not in ('(', '+', '-', '*', '/'):
            out += ' '
        out += s
    return out


def py_eval(text: str) -> decimal.Decimal:
    """Independent evaluator: Python's own expression grammar over Decimal literals."""
    src = re.sub(r'[0-9][0-9,]*(\.[0-9]*)?', lambda m: f'D("{m.group(0).replace(",", "")}")', text)
    return eval(src, {'D': decimal.Decimal, '__builtins__': {}})  # noqa: S307


def close(v: decimal.Decimal, r: list) -> bool:
    want = decimal.Decimal(r[0]) / decimal.Decimal(r[1])
    return abs(v - want) <= abs(want) * decimal.Decimal('1e-20') + decimal.Decimal('1e-24')


def get_expr(host: str, text: str) -> tuple[Any, Any, str, str]:
    if host == 'free':
        e = tree.parse(text, models.NumberExpr)
        return e, None, '', ''
    pre, suf = HOSTS[host]
    f = tree.parse(pre + text + suf)
    if host == 'posting':
        e = f.raw_directives[0].raw_postings[0].raw_number
    elif host == 'balance':
        e = f.raw_directives[1].raw_number
    else:
        e = f.raw_directives[0].raw_meta[0].raw_value
    assert isinstance(e, models.NumberExpr), type(e)
    return e, f, pre, suf


def replay(beh: list[dict], host: str, variant: int, attached_operand: bool) -> tuple[list, int]:
    findings: list = []
    t0 = render(beh[0]['text'], variant)
    try:
        a, doc, pre, suf = get_expr(host, t0)
    except Exception as e:  # noqa: BLE001
        return [('machinery', 'init', f'{type(e).__name__}: {e} for {t0!r}')], 0
    if not close(a.value, beh[0]['value']):
        findings.append(('value', 'parse', f'parse({t0!r}).value = {a.value}, expected {beh[0]["value"]}'))
        return findings, 0
    if py_eval(t0) != a.value:
        findings.append(('value', 'parse', f'parse({t0!r}).value = {a.value}, usual arithmetic gives {py_eval(t0)}'))
    steps = 0
    frozen: list = []          # (object, text) of operands / documents of earlier non-in-place steps
    for k, ev in enumerate(beh[1:], 1):
        op, form, o = ev['op'], ev['form'], ev['operand']
        fp = f'{op}/{form}/{o[0]}'
        b: Any
        bdoc = None
        if op in ('u+', 'u-', 'leaf'):
            b = None
        elif o[0] == 'self':
            b = a
        elif o[0] == 'int':
            b = o[1] if (k + variant) % 2 else decimal.Decimal(o[1])
        elif o[0] == 'neg':
            b = -tree.parse(render(_init_tokens(o[1]), variant + 1), models.NumberExpr)     # the direct result of a unary minus
        elif attached_operand:
            b, bdoc, _, _ = get_expr('posting', render(_init_tokens(o[1]), variant + 1))
        else:
            b = tree.parse(render(_init_tokens(o[1]), variant + 1), models.NumberExpr)
        a_text = tree.text_of(a)
        b_text = tree.text_of(b) if isinstance(b, models.NumberExpr) else None
        doc_text = tree.text_of(doc) if doc is not None else None
        bdoc_text = tree.text_of(bdoc) if bdoc is not None else None
        exc = ''
        r = None
        try:
            if op == 'leaf':
                # every node's value is read first (whatever a node remembers about its operands is now stale-able),
                # then the literal is assigned through its own token
                for _, sub in tree.walk(a):
                    if hasattr(type(sub), 'value'):
                        sub.value
                if doc is not None:
                    tree.content(doc)
                lits = [t for t in a.tokens if isinstance(t, models.Number)]
                lits[o[1] - 1].value = decimal.Decimal(ev['leaf'])
                r = a
            elif op == 'u-':
                r = -a
            elif op == 'u+':
                r = +a
            elif form == 'inplace':
                if op == '+':
                    a += b
                elif op == '-':
                    a -= b
                elif op == '*':
                    a *= b
                else:
                    a /= b
                r = a
            elif form == 'plain':
                r = {'+': lambda: a + b, '-': lambda: a - b, '*': lambda: a * b, '/': lambda: a / b}[op]()
            else:
                r = {'+': lambda: b + a, '-': lambda: b - a, '*': lambda: b * a, '/': lambda: b / a}[op]()
        except ValueError:
            exc = 'ValueError'
        except Exception as e:  # noqa: BLE001
            exc = f'{type(e).__name__}: {e}'
        steps += 1
        if form == 'inplace' and bdoc is not None and isinstance(b, models.NumberExpr):
            # an operand that lives in a document cannot be consumed: refusal, and a stutter (C19)
            if exc != 'ValueError':
                findings.append(('refusal', fp, f'in-place {op} with an operand attached elsewhere ended with {exc or "success"}'))
            now_doc = tree.text_of(doc) if doc is not None else None
            if tree.text_of(a) != a_text or now_doc != doc_text or tree.text_of(bdoc) != bdoc_text:
                findings.append(('refusal', fp, f'refused in-place {op} changed a document: self {a_text!r} -> {tree.text_of(a)!r}; '
                                                f'operand document {bdoc_text!r} -> {tree.text_of(bdoc)!r}'))
            break
        if exc:
            findings.append(('crash', fp, f'{a_text!r} {op} {b_text if b_text is not None else b!r} ({form}) raised {exc}'))
            break
        rt = tree.text_of(r)
        if not close(r.value, ev['value']):
            findings.append(('value', fp, f'{a_text!r} {op} {b_text if b_text is not None else b!r} ({form}) = {rt!r} with value {r.value}, expected {ev["value"]}'))
            break
        try:
            pv = py_eval(rt)
            if pv != r.value:
                findings.append(('value', fp, f'{rt!r}: value {r.value} but usual decimal arithmetic gives {pv}'))
            rv = tree.parse(rt, models.NumberExpr).value
            if rv != r.value:
                findings.append(('reparse', fp, f'{rt!r} re-parses to {rv}, result value is {r.value}'))
        except Exception as e:  # noqa: BLE001
            findings.append(('reparse', fp, f'printed result {rt!r} cannot be evaluated / re-parsed: {type(e).__name__}'))
        if form != 'inplace':
            # operands and their documents unchanged
            if tree.text_of(a) != a_text:
                findings.append(('operand', fp, f'left operand changed: {a_text!r} -> {tree.text_of(a)!r}'))
            if isinstance(b, models.NumberExpr) and tree.text_of(b) != b_text:
                findings.append(('operand', fp, f'right operand changed: {b_text!r} -> {tree.text_of(b)!r}'))
            if doc is not None and tree.text_of(doc) != doc_text:
                findings.append(('operand', fp, f'document of the left operand changed: {doc_text!r} -> {tree.text_of(doc)!r}'))
            if bdoc is not None and tree.text_of(bdoc) != bdoc_text:
                findings.append(('operand', fp, f'document of the right operand changed: {bdoc_text!r} -> {tree.text_of(bdoc)!r}'))
            frozen.append((a, a_text, 'the left operand'))
            if isinstance(b, models.NumberExpr):
                frozen.append((b, b_text, 'the right operand'))
            if doc is not None:
                frozen.append((doc, doc_text, 'the document'))
            if bdoc is not None:
                frozen.append((bdoc, bdoc_text, 'the operand document'))
            a, doc = r, None
        else:
            if doc is not None:
                now = tree.text_of(doc)
                if now != pre + rt + suf:
                    findings.append(('frame', fp, f'in-place {op} changed text outside the expression: {now!r}'))
                else:
                    try:
                        f2 = tree.parse(now)
                        if tree.content(f2) != tree.content(doc):
                            findings.append(('reparse', fp, f'document content differs after re-parse: {now!r}'))
                    except Exception as e:  # noqa: BLE001
                        findings.append(('reparse', fp, f'document no longer parses ({type(e).__name__}): {now!r}'))
                bad = tree.wellformed(doc)
                if bad:
                    findings.append(('tree', fp, '; '.join(bad[:2])))
        if form == 'inplace' and isinstance(b, models.NumberExpr) and b is not a and bdoc is None and op not in ('leaf',):
            # the free-standing operand was consumed by the in-place operator: it cannot be put anywhere again
            d2 = tree.parse('2000-01-01 *\n    Assets:Z  9 USD\n')
            t2 = tree.text_of(d2)
            try:
                d2.raw_directives[0].raw_postings[0].raw_number = b
                findings.append(('refusal', fp, f'an operand consumed by in-place {op} was accepted again elsewhere: {t2!r} -> {tree.text_of(d2)!r}'))
            except ValueError:
                if tree.text_of(d2) != t2:
                    findings.append(('refusal', fp, f'refused reuse of a consumed operand changed the document: {tree.text_of(d2)!r}'))
            except Exception as e2:  # noqa: BLE001
                findings.append(('refusal', fp, f'reuse of a consumed operand raised {type(e2).__name__}: {e2}'))
        for obj, txt, what in frozen:
            if tree.text_of(obj) != txt:
                findings.append(('operand', fp, f'{what} of an earlier non-in-place operation changed later: {txt!r} -> {tree.text_of(obj)!r}'))
                break
        if findings:
            break
    return findings, steps


_INIT_TOK: dict[str, list] = {}


def _init_tokens(name: str) -> list:
    if name not in _INIT_TOK:
        _INIT_TOK[name] = [int(t) if t.isdigit() else t for t in re.findall(r'\d+|[-+*/()]', name)]
    return _INIT_TOK[name]


def _chunk(arg: tuple) -> tuple[int, list]:
    items, hosts, attached = arg
    out = []
    steps = 0
    from checks import store_replay
    for n, s in items:
        beh = json.loads(s)
        store_replay.set_load_factor(store_replay.rot(n))
        for host in hosts:
            for att in ((False, True) if attached else (False,)):
                if att and not any(ev['operand'][0] == 'expr' for ev in beh[1:]):      # only 'expr' operands can be attached
                    continue
                fnd, st = replay(beh, host, n, att)
                steps += st
                for kind, fp, msg in fnd:
                    out.append((kind, fp, msg, host, att, beh))
    store_replay.set_load_factor(1000)
    return steps, out


def run(rep: common.Reporter, tier: str, kinds: Optional[set] = None, depth: Optional[int] = None) -> dict:
    depth = depth or (2 if tier == 'quick' else 3)
    inits = '{' + ','.join(f'"{i}"' for i in INITS) + '}'
    behs: list[str] = []
    r = tlc.run('NumExpr', dict(Depth=str(depth), Inits=inits, Operands=OPERANDS, LeafVals='{5, 7}'), invariants=['ValueOK'],
                constraints=['Emit'], on_print=lambda p: behs.append(p[1]), timeout=3000)
    if not r.ok:
        rep.machinery_error(f'NumExpr TLC run failed: {r.violated} {r.tail[-600:]}')
        return {}
    if tier == 'thorough' and len(behs) > 400000:
        import random
        random.Random(common.seed()).shuffle(behs)
        behs = behs[:400000]
    hosts = ['free', 'posting'] if tier == 'quick' else list(HOSTS)
    steps = 0
    with mp.Pool(16) as pool:
        jobs = [(ch, hosts, True) for ch in common.chunked(list(enumerate(behs)), 200)]
        for st, out in common.gmap(pool, rep, _chunk, jobs):
            steps += st
            for kind, fp, msg, host, att, beh in out:
                if kind == 'machinery':
                    rep.machinery_error(msg)
                elif kinds is None or kind in kinds:
                    rep.violation(f'numexpr/{kind}/{fp}/{host}{"/attached-operand" if att else ""}',
                                  {'what': msg, 'host': host, 'behaviour': beh})
    return {'states': r.distinct, 'transitions': r.generated, 'behaviours': len(behs), 'steps': steps, 'hosts': hosts,
            'sample': json.loads(behs[len(behs) // 2]) if behs else None}


def refusal_part(rep: common.Reporter, tier: str) -> dict:
    return run(rep, 'quick', {'refusal'}, depth=1)


def main(prop: str, tier: str) -> int:
    rep = common.Reporter('C13', tier)
    p = run(rep, tier, {'value', 'reparse', 'operand', 'crash', 'frame'})
    rep.cov.update({'states': p.get('states', 1), 'transitions': p.get('transitions', 1),
                    'traces_validated_against_impl': p.get('behaviours', 0), 'replay_steps': p.get('steps', 0),
                    'hosts': p.get('hosts'), 'samples': [p.get('sample')], 'exhaustive': True,
                    'rule': 'every operator chain of NumExpr.tla up to the depth from every initial shape, with int / Decimal / '
                            'expression operands, free-standing and attached inside documents'})
    rep.assumptions += ['numeric accuracy: compared with an independent left-to-right Decimal evaluation of the printed text; '
                        'the specification checks structure over exact rationals', 'division by zero is excluded']
    return rep.finish()


if __name__ == '__main__':
    sys.exit(main('C13', sys.argv[1] if len(sys.argv) > 1 else 'quick'))

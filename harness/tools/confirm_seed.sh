#!/bin/bash
# confirm_seed.sh <agent worktree> <mK> <seed id> <property>
# Confirms a seeded change in a fresh scratch worktree of /repo HEAD and stores it under /verif/seeded/<seed id>/.
set -u
WT=$1; M=$2; ID=$3; PROP=$4
SRC=$WT/SEED/$M
SCR=/tmp/cs_$ID
rm -rf $SCR; git -C /repo worktree prune; git -C /repo worktree add -q --detach $SCR HEAD || exit 2
cleanup() { git -C /repo worktree remove --force $SCR 2>/dev/null; rm -rf $SCR; }
trap cleanup EXIT
mkdir -p $SCR/SEED/$M && cp $SRC/demo.py $SCR/SEED/$M/
cd $SCR
PYTHONPATH=$SCR /venv/bin/python SEED/$M/demo.py > /tmp/cs_$ID.clean.log 2>&1; C=$?
if ! git apply --3way $SRC/patch.diff 2>/tmp/cs_$ID.apply.log; then echo "$ID: patch does not apply"; cat /tmp/cs_$ID.apply.log | head; exit 1; fi
git diff HEAD -- autobean_refactor > /tmp/cs_$ID.patch
PYTHONPATH=$SCR /venv/bin/python SEED/$M/demo.py > /tmp/cs_$ID.patched.log 2>&1; P=$?
T=$(cd $SCR && /venv/bin/python -m pytest -q -p no:cacheprovider -x -k "not benchmark" 2>&1 | tail -1)
echo "$ID: demo clean exit=$C patched exit=$P ; tests: $T"
if [ $C -eq 0 ] && [ $P -ne 0 ] && echo "$T" | grep -q " passed" && ! echo "$T" | grep -q failed; then
  D=/verif/seeded/$ID; mkdir -p $D
  cp /tmp/cs_$ID.patch $D/patch.diff; cp $SRC/demo.py $D/demo.py
  /venv/bin/python - "$SRC/meta.json" "$D/meta.json" "$PROP" "$C" "$P" "$T" <<'PY'
import json,sys
src,dst,prop,c,p,t=sys.argv[1:7]
try: m=json.load(open(src))
except Exception: m={}
out={'property':prop,'summary':m.get('summary',''),'needs_to_manifest':m.get('needs_to_manifest',''),
     'files_touched':m.get('files_touched',[]),
     'confirmed':{'base':'fresh scratch worktree of /repo HEAD','demo_exit_clean':int(c),'demo_exit_patched':int(p),
                  'tests_with_patch (-k "not benchmark")':t},
     'author':'independent sub-agent given only the property text'}
json.dump(out,open(dst,'w'),indent=1)
PY
  echo "$ID: KEPT"
else
  echo "$ID: REJECTED"; tail -3 /tmp/cs_$ID.clean.log; tail -3 /tmp/cs_$ID.patched.log
fi

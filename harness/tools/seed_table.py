#!/usr/bin/env python3
"""Prints the markdown table of seeded changes and which check caught them (from seeded/RESULTS.json)."""
import json, os
V = os.path.dirname(os.path.dirname(os.path.dirname(os.path.abspath(__file__))))
r = json.load(open(os.path.join(V, 'seeded', 'RESULTS.json')))
print('| Seed | What it breaks (needs) | Checked with | Result | First fingerprint |')
print('|---|---|---|---|---|')
for sid in sorted(d for d in os.listdir(os.path.join(V, 'seeded')) if os.path.isdir(os.path.join(V, 'seeded', d))):
    m = json.load(open(os.path.join(V, 'seeded', sid, 'meta.json')))
    summ = (m.get('summary') or '')[:110].replace('|', '/').replace('\n', ' ')
    res = r.get(sid, {})
    if not res:
        print(f'| {sid} | {summ} | - | not evaluated | |')
        continue
    for p, v in res.items():
        fp = (v.get('fingerprints') or [''])[0].replace('fingerprint: ', '')[:70]
        print(f"| {sid} | {summ} | {p} {v.get('tier','quick')} | {'caught' if v.get('caught') else 'MISSED (exit %s)' % v.get('exit')} | {fp} |")

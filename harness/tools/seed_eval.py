#!/venv/bin/python
"""seed_eval.py [seed ids...]: apply each /verif/seeded/<id>/patch.diff to /repo, run the quick check of its
property (or --props P1,P2), undo, and record the outcome in /verif/seeded/RESULTS.json."""
import json, os, subprocess, sys, time
REPO = os.environ.get('VP_RUN_REPO') or os.environ.get('SEED_REPO') or '/repo'
VERIF = os.getcwd() if os.environ.get('VP_RUN_REPO') else '/verif'
def sh(cmd, **kw): return subprocess.run(cmd, shell=True, capture_output=True, text=True, env=dict(os.environ, VERIF_REPO=REPO), **kw)
def main():
    args = [a for a in sys.argv[1:] if not a.startswith('--')]
    props_override = next((a.split('=')[1].split(',') for a in sys.argv[1:] if a.startswith('--props=')), None)
    tier = next((a.split('=')[1] for a in sys.argv[1:] if a.startswith('--tier=')), 'quick')
    ids = args or sorted(d for d in os.listdir(f'{VERIF}/seeded') if os.path.isdir(f'{VERIF}/seeded/{d}'))
    respath = f'{VERIF}/seeded/RESULTS.json'
    results = json.load(open(respath)) if os.path.exists(respath) else {}
    assert sh(f'git -C {REPO} status --porcelain').stdout.strip() == '', 'repo not clean'
    for sid in ids:
        d = f'{VERIF}/seeded/{sid}'
        meta = json.load(open(f'{d}/meta.json'))
        props = props_override or [meta['property']]
        r = sh(f'git -C {REPO} apply {d}/patch.diff')
        if r.returncode:
            print(sid, 'patch does not apply:', r.stderr[:200]); continue
        try:
            for p in props:
                t = time.time()
                c = sh(f'cd {VERIF} && /venv/bin/python harness/run.py --property {p} --tier {tier}')
                lines = [l for l in c.stdout.splitlines() if l.startswith(('VIOLATION', 'KNOWN', 'OK', 'MACHINERY'))]
                fps = [l.strip() for l in c.stdout.splitlines() if l.strip().startswith('fingerprint:')]
                results.setdefault(sid, {})[p] = {'exit': c.returncode, 'wall_s': round(time.time() - t, 1), 'tier': tier,
                                                'caught': c.returncode == 1, 'first_lines': lines[:3], 'fingerprints': fps[:4]}
                print(sid, p, 'exit', c.returncode, flush=True) if False else print(sid, p, 'exit', c.returncode, f'{time.time()-t:.0f}s', (fps or lines or [c.stdout[-300:]])[:2], flush=True)
        finally:
            sh(f'git -C {REPO} checkout -- .')
        json.dump(results, open(respath, 'w'), indent=1)
    # leave replays produced by mutants out of the tree
    sh(f'rm -f {VERIF}/replays/*.json')
if __name__ == '__main__':
    main()

#!/bin/bash
# thorough_all.sh [properties...] : dry run of the thorough tier (evidence and replays go to a scratch directory)
cd "$(dirname "$0")/../.."
OUT=$(mktemp -d /tmp/verif_thorough_XXXX)
for p in "$@"; do
  s=$(date +%s)
  out=$(VERIF_EVIDENCE_DIR=$OUT VERIF_REPLAY_DIR=$OUT timeout 14400 /venv/bin/python harness/run.py --property $p --tier thorough 2>&1 | grep -E "fingerprint|^OK|MACHIN|^VIOLATION" | cut -c1-200 | sort | uniq -c | head -6 | tr '\n' ' ')
  echo "$p $(( $(date +%s) - s ))s :: $out"
done
rm -rf $OUT

#!/bin/bash
# try_seed.sh <seed id> [property] : run one quick check against a scratch worktree of /repo HEAD with the seeded
# change applied (the live /repo is not touched); the worktree is removed afterwards.
id=$1; prop=${2:-${id%%_*}}
wt=/tmp/wt_try_$id
git -C /repo worktree remove --force $wt 2>/dev/null
git -C /repo worktree add -f $wt HEAD -q || exit 2
git -C $wt apply /verif/seeded/$id/patch.diff 2>/dev/null || { echo "patch does not apply"; git -C /repo worktree remove --force $wt; exit 2; }
cd /verif
VERIF_REPO=$wt VERIF_REPLAY_DIR=/tmp/replays_try_$id VERIF_EVIDENCE_DIR=/tmp/replays_try_$id timeout ${TRY_TIMEOUT:-3000} /venv/bin/python harness/run.py --property $prop --tier ${TIER:-quick} 2>&1 | grep -E "fingerprint|^OK|^VIOLATION|MACHIN" | cut -c1-220 | sort | uniq -c | head -${LINES_MAX:-8}
git -C /repo worktree remove --force $wt; git -C /repo worktree prune
rm -rf /tmp/replays_try_$id
